#!/bin/sh
# regress.sh <prefix ...>: every seeded change whose id starts with one of the prefixes (c13, c15, c16)
# against the quick check of its property (seeded/try.sh); one line per change: CAUGHT / MISSED / HARNESS.
here="$(cd "$(dirname "$0")/.." && pwd)"
for pre in "$@"; do
  for d in "$here"/seeded/$pre*; do
    id=$(basename "$d"); [ -f "$d/patch.diff" ] || continue
    out=$(TRY_LINES=3 "$here/seeded/try.sh" "$id" 2>&1 | grep -v "^WARN")
    if echo "$out" | grep -q "HARNESS"; then st=HARNESS
    elif echo "$out" | grep -q "seen "; then st=CAUGHT
    else st=MISSED; fi
    echo "$id $st $(echo "$out" | grep "seen " | head -1 | sed 's/  */ /g' | cut -c1-110)"
  done
done
