#!/bin/sh
# soak.sh <first-seed> <last-seed> [props...]: run the registered quick checks on /repo under many
# VERIF_SEED values and report every exit status that is not 0 (1 = violation, 3 = harness error).
# A clean soak is the evidence that the checks do not raise alarms on the unchanged tree.
here="$(cd "$(dirname "$0")/.." && pwd)"
a="$1"; b="$2"; shift 2; props="${*:-C16 C13 C15}"
bad=0
for s in $(seq "$a" "$b"); do
  for p in $props; do
    out=$(VERIF_SEED=$s "$here/check" "$p" --tier quick 2>&1); rc=$?
    line=$(echo "$out" | grep "plans=.*wall" | tail -1)
    echo "seed=$s $p exit=$rc $line"
    if [ $rc -ne 0 ]; then bad=$((bad+1)); echo "$out" | grep -v "^WARN" | tail -15; fi
  done
done
echo "soak done: $bad non-zero exits"
