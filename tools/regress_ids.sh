#!/bin/sh
# regress_ids.sh <id ...>: like regress.sh, for the given seeded changes only.
here="$(cd "$(dirname "$0")/.." && pwd)"
for id in "$@"; do
  [ -f "$here/seeded/$id/patch.diff" ] || continue
  out=$(TRY_LINES=3 "$here/seeded/try.sh" "$id" 2>&1 | grep -v "^WARN")
  if echo "$out" | grep -q "HARNESS"; then st=HARNESS
  elif echo "$out" | grep -q "seen "; then st=CAUGHT
  else st=MISSED; fi
  echo "$id $st $(echo "$out" | grep "seen " | head -1 | sed 's/  */ /g' | cut -c1-110)"
done
