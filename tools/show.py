import json,sys
r=json.load(open(sys.argv[1]))
print(r['signature'], r['hash_seeds'])
p=r['plan']
for t,tr in p['world'].get('trees',{}).items():
    print(t, tr['root'], 'dirs', tr['dirs'])
    for f,c in tr['files'].items(): print('   ', f, repr(c))
print('pumls', p['world'].get('pumls'))
print('cfgs', p['cfgs'])
for ci,c in enumerate(p['clients']):
    for op in c: print('  c%d'%ci, {k:v for k,v in op.items() if k!='order'}, 'ORDER' if op.get('order') else '')
print('schedule', p['schedule'])
for e in p.get('isolated',[]):
    print('iso', e['key'], [ (o.get('m') or o.get('cls'), o.get('a')) for o in e['build']])
d=r['detail']
print(json.dumps(d.get('detail',d),indent=1)[:int(sys.argv[2]) if len(sys.argv)>2 else 3000])
