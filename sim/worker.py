"""Long-lived worker interpreter with a fixed PYTHONHASHSEED.

Protocol: newline-delimited JSON on stdin/stdout.
  {"t":"gen","prop":P,"seed":S,"indices":[..]}      generate + execute + judge each plan
  {"t":"plan","plan":{..}}                            execute + judge one explicit plan, full log
  {"t":"quit"}
Anything that is not an `Exception` raised by the library (KeyboardInterrupt, SystemExit,
interpreter death, per-plan wall timeout) terminates the worker: the coordinator treats
that as a harness error, never as a pass and never as a violation.
"""
import faulthandler
import json
import os
import sys

PLAN_TIMEOUT_S = int(os.environ.get("VERIF_PLAN_TIMEOUT", "60"))


def norm_res(res, op=None):
    r = res.get("r")
    if op is not None and op.get("abort_at") and op.get("op") == "scan":
        return ["ABORTABLE"]  # where the cancellation lands may depend on set iteration order
    if r in ("IOFAULT", "IOFAULT_SWALLOWED"):
        return ["IOFAULT", res.get("ev_after")]  # F15: only the evaluable is comparable
    if res.get("tainted") or r == "ABORTED":
        return ["CANCELLED-OBJECT", res.get("ev_after")]  # only the evaluable is comparable
    if r == "exc":
        return ["exc", "A:" + res.get("msg", "")] if res.get("assertion") else ["exc"]
    if r == "FAIL":
        return ["FAIL", res.get("msg", ""), res.get("ev_after")]
    if r == "NOVERDICT":
        return ["NOVERDICT", res.get("ev_after")]
    if r == "PASS":
        return ["PASS", res.get("ev_after")]
    out = [r]
    for k in ("snap", "str", "items", "modules", "layers", "filters"):
        if k in res:
            if k == "str" and res.get("cls") != "LayeredArchitecture":
                continue  # str(rule) is not a verdict (default repr / changes after alias expansion)
            out.append(res[k])
    return out


def comparable(result):
    """The part of an execution that must not depend on the interpreter's hash seed."""
    events = [[e["i"], e["c"], e["op"]["op"], norm_res(e["res"], e["op"])] for e in result["log"]]
    iso = result.get("isolated") or {}
    scans = {k: norm_res(v) for k, v in (iso.get("scans") or {}).items()}
    outs = {k: norm_res(v) for k, v in (iso.get("outcomes") or {}).items()}
    return {"events": events, "iso_scans": scans, "iso_outcomes": outs}


def run_one(plan, executor, judge, generators, want_log, tag):
    faulthandler.dump_traceback_later(PLAN_TIMEOUT_S, exit=True)
    try:
        result = executor.execute(plan, run_tag=tag)
        verdict = judge.judge(plan, result)
    finally:
        faulthandler.cancel_dump_traceback_later()
    comp = comparable(result)
    if result.get("probes") and plan.get("prop") == "C15":
        pr = verdict["stats"].setdefault("probes", {})
        for k, v in result["probes"]["aborts"].items():
            if v:
                pr[f"cancellation_{k}"] = pr.get(f"cancellation_{k}", 0) + v
        for k, v in (result["probes"].get("io_faults") or {}).items():
            if v:
                pr[f"io_fault_{k}"] = pr.get(f"io_fault_{k}", 0) + v
        if result["probes"]["evaluable_address_reused"]:
            pr["evaluable_address_reused"] = result["probes"]["evaluable_address_reused"]
    sched = [[e["c"], e["op"]["op"], e["op"].get("m"), e["op"].get("obj"), e["op"].get("ev"),
              judge.form(e["op"])] for e in result["log"]]
    out = {
        "sched_sig": executor.digest(sched),
        "index": plan.get("index"),
        "plan_digest": executor.digest(plan),
        "cmp_digest": executor.digest(comp),
        "full_digest": executor.digest([result["log"], result["isolated"], result["snaps"]]),
        "violations": verdict["violations"],
        "stats": verdict["stats"],
        "fs": result["fs"],
        "steps": len(result["log"]),
        "group": plan.get("world_group"),
        "cover": (plan.get("meta") or {}).get("cover") or [],
        "iso_outcomes": {k: executor.digest(v) for k, v in comp["iso_outcomes"].items()},
    }
    if want_log:
        out["result"] = result
        out["comparable"] = comp
        out["plan"] = plan
    return out


def main():
    src = os.environ.get("PYTESTARCH_SRC", "/repo/src")
    here = os.path.dirname(os.path.dirname(os.path.abspath(__file__)))
    if here not in sys.path:
        sys.path.insert(0, here)
    from sim import executor, generators, judge

    where = executor.init(src)
    hello = {"hello": True, "hashseed": os.environ.get("PYTHONHASHSEED"),
             "canary": executor.hash_canary(), "src": where, "pid": os.getpid(),
             "scratch": executor.process_scratch()}
    sys.stdout.write(json.dumps(hello) + "\n")
    sys.stdout.flush()
    n = 0
    for line in sys.stdin:
        line = line.strip()
        if not line:
            continue
        req = json.loads(line)
        if req["t"] == "quit":
            break
        if req["t"] == "gen":
            outs = []
            for idx in req["indices"]:
                plan = generators.generate(req["prop"], req["seed"], idx)
                n += 1
                outs.append(run_one(plan, executor, judge, generators,
                                    req.get("want_log", False), n))
            sys.stdout.write(json.dumps({"results": outs}) + "\n")
        elif req["t"] == "plans":  # explicit plans in order, one interpreter (history replay)
            outs = []
            for k, plan in enumerate(req["plans"]):
                n += 1
                last = k == len(req["plans"]) - 1
                outs.append(run_one(plan, executor, judge, generators,
                                    bool(req.get("want_log_last")) and last, n))
            sys.stdout.write(json.dumps({"results": outs}) + "\n")
        elif req["t"] == "plan":
            n += 1
            out = run_one(req["plan"], executor, judge, generators, True, n)
            sys.stdout.write(json.dumps({"results": [out]}) + "\n")
        else:
            raise SystemExit(f"bad request {req['t']}")
        sys.stdout.flush()
    try:
        import shutil

        from sim import fsseam

        shutil.rmtree(executor.process_scratch(), ignore_errors=True)
    except OSError:
        pass


if __name__ == "__main__":
    main()
