"""Executes one explicit plan (a simulated pytest-like session) against the real library.

Pure function of (plan, code under test, interpreter hash seed).  Draws nothing from a
PRNG, reads no clock.  Observes the library only through its public API.
"""
import hashlib
import json
import os
import types
import warnings
from pathlib import Path

from . import fsseam

import re

_ADDR = re.compile(r" at 0x[0-9a-fA-F]+")
_pa = None  # the pytestarch package, imported lazily by init()
_ModuleNameFilter = None
_lib_prefix = None  # directory of the library under test (frames below it are abort points)


_real_id = id


class IdSeam:
    """F13 seam: object identity.  Where the allocator places an object - and therefore whether a
    new object gets the id() of a dead one - is not reproducible across processes, so the
    simulator owns it: builtins.id is wrapped; evaluables, rule objects and the library objects
    they hold (two attribute hops) report a simulated id = (type slot), and a slot freed by the
    plan's `drop` step is handed to the next object of that type.  Everything else keeps its
    real id.  Simulated ids are < 2**16, below any real address, so ids stay unique among
    live objects."""

    def __init__(self):
        self.reset()

    def reset(self):
        self.map = {}  # real id -> simulated id
        self.free = {}  # type name -> sorted free slots
        self.next = {}  # type name -> next never-used slot
        self.types = []  # type names in order of first registration
        self.roots = {}  # real id of a registered root -> [(object, type name, slot)]
        self.reused = 0

    def sim_id(self, obj):
        r = _real_id(obj)
        return self.map.get(r, r)

    @staticmethod
    def _reachable(root):
        out, frontier = [root], [root]
        seen = {_real_id(root)}
        for _ in range(2):
            nxt = []
            for o in frontier:
                d = getattr(o, "__dict__", None)
                if not isinstance(d, dict):
                    continue
                for k in sorted(d):
                    v = d[k]
                    mod = getattr(type(v), "__module__", "") or ""
                    if not (mod.startswith("pytestarch") or mod.startswith("networkx")):
                        continue
                    if _real_id(v) in seen:
                        continue
                    seen.add(_real_id(v))
                    out.append(v)
                    nxt.append(v)
            frontier = nxt
        return out

    def register(self, root):
        if _real_id(root) in self.roots:
            return
        entries = []
        for o in self._reachable(root):
            if _real_id(o) in self.map:
                continue  # shared with another registered root (e.g. a layer definition)
            tn = type(o).__qualname__
            if tn not in self.types:
                self.types.append(tn)
            fl = self.free.get(tn)
            if fl:
                slot = fl.pop(0)
                self.reused += 1
            else:
                slot = self.next.get(tn, 0)
                self.next[tn] = slot + 1
            if slot >= 4000 or len(self.types) > 14:
                continue
            self.map[_real_id(o)] = 4096 * (1 + self.types.index(tn)) + slot
            entries.append((o, tn, slot))  # the reference keeps the real id from being re-used
        self.roots[_real_id(root)] = entries

    def release(self, root):
        for o, tn, slot in self.roots.pop(_real_id(root), []):
            self.map.pop(_real_id(o), None)
            fl = self.free.setdefault(tn, [])
            fl.append(slot)
            fl.sort()


ids = IdSeam()


class InjectedAbort(BaseException):
    """F12: the simulator cancels a call at a chosen point (what a test timeout or Ctrl-C does
    to a test function while session-scoped objects live on).  Not an `Exception`, so no
    handler of the library may swallow it."""


def call_with_abort(fn, k):
    """Run fn(); raise InjectedAbort inside it when the k-th line event in a frame of the
    library under test is reached.  Returns (value, lines_seen); the abort propagates."""
    import sys

    seen = [0]

    def local(frame, event, arg):
        if event == "line":
            seen[0] += 1
            if seen[0] == k:
                where = f"{os.path.relpath(frame.f_code.co_filename, _lib_prefix)}:{frame.f_lineno}"
                raise InjectedAbort(where)
        return local

    def glob(frame, event, arg):
        if frame.f_code.co_filename.startswith(_lib_prefix):
            return local
        return None

    sys.settrace(glob)
    try:
        return fn(), seen[0]
    finally:
        sys.settrace(None)


def init(src_dir):
    """Import pytestarch from `src_dir` (the working tree under test) and nothing else."""
    global _pa, _ModuleNameFilter, _lib_prefix
    import sys

    src_dir = os.path.abspath(src_dir)
    if src_dir in sys.path:
        sys.path.remove(src_dir)
    sys.path.insert(0, src_dir)
    import pytestarch
    from pytestarch.eval_structure.evaluable_architecture import ModuleNameFilter

    where = os.path.abspath(pytestarch.__file__)
    if not where.startswith(src_dir + os.sep):
        raise RuntimeError(f"pytestarch imported from {where}, expected below {src_dir}")
    _pa = pytestarch
    _ModuleNameFilter = ModuleNameFilter
    _lib_prefix = os.path.dirname(where) + os.sep
    import builtins

    builtins.id = ids.sim_id
    fsseam.install()
    warnings.showwarning = _warning_sink
    return where


_warning_count = [0]


def _warning_sink(*args, **kwargs):  # @deprecated prints regardless of filters; swallow
    _warning_count[0] += 1


def canon(obj):
    return json.dumps(obj, sort_keys=True, separators=(",", ":"), ensure_ascii=True)


def digest(obj):
    return hashlib.sha256(canon(obj).encode()).hexdigest()[:16]


def snapshot(ev):
    """Public-API snapshot of an evaluable: sorted modules + set of concrete import pairs."""
    mods = sorted(ev.modules)
    modset = set(mods)
    roots = []
    for m in mods:
        parts = m.split(".")
        if not any(".".join(parts[:i]) in modset for i in range(1, len(parts))):
            roots.append(m)
    filters = [_ModuleNameFilter(name=r) for r in roots]
    deps = ev.get_dependencies(filters, filters)
    edges = set()
    for found in deps.values():
        for a, b in found:
            edges.add((a.identifier, b.identifier))
    return {"modules": mods, "edges": sorted(list(e) for e in edges)}


def _exc_info(e, scratch):
    msg = str(e)
    if scratch:
        msg = msg.replace(scratch, "<SCRATCH>")
    is_assert = isinstance(e, AssertionError)
    return {"cls": type(e).__name__, "assertion": is_assert, "msg": msg[:2000]}


class NS(dict):
    """Object namespace of a session (or of one isolated evaluation)."""

    def __init__(self):
        super().__init__()
        self.dead = set()  # ids of objects after a rejected builder call


class Session:
    def __init__(self, plan, scratch):
        self.plan = plan
        self.scratch = scratch
        self.objs = NS()  # id -> live object
        self.evs = {}  # id -> evaluable
        self.ev_snap = {}  # id -> digest at creation
        self.snaps = {}  # digest -> snapshot
        self.log = []
        self.order_canary = []
        self.aborts = {"apply": 0, "scan": 0, "missed": 0}
        self.track_ids = plan.get("prop") == "C15"
        self.light = plan.get("prop") == "C13"
        self.tainted = set()  # rule objects whose evaluation the plan cancels (unspecified after)
        self.io_faults = {"fired": 0, "missed": 0, "swallowed": 0}
        self.iso_scan_snap = {}  # cfg -> snapshot digest of the reference scan (isolated pass)
        self.held = {}  # F14: list objects the caller passed to a builder call and still owns

    # -- argument decoding ---------------------------------------------------------
    def _arg(self, a, ns):
        if isinstance(a, dict):
            if "$obj" in a:
                return ns[a["$obj"]]
            if "$puml" in a:
                return Path(self.scratch) / "pumls" / (a["$puml"] + ".puml")
            if "$path" in a:
                return Path(self.scratch) / a["$path"]
            if "$tuple" in a:
                return tuple(self._arg(x, ns) for x in a["$tuple"])
            if "$keep" in a:
                # the caller keeps a reference to the list it passes (and may change it later)
                lst = [self._arg(x, ns) for x in a["v"]]
                self.held[a["$keep"]] = lst
                return lst
            if "$held" in a:
                return self.held[a["$held"]]  # the very list object passed before
            if "$shared" in a:
                # a constant of the test module: one list object for every call that names it
                if a["$shared"] not in self.held:
                    self.held[a["$shared"]] = list(self.plan["shared_lists"][a["$shared"]])
                return self.held[a["$shared"]]
            raise ValueError(f"bad arg {a}")
        if isinstance(a, list):
            return [self._arg(x, ns) for x in a]
        return a

    def _snap(self, ev):
        # C13 judges by the module list alone; asking an architecture for all its dependencies walks
        # everything and would fill whatever the library remembers per architecture before the
        # session's own first request reaches it
        s = {"modules": sorted(ev.modules), "edges": []} if self.light else snapshot(ev)
        d = digest(s)
        if d not in self.snaps:
            self.snaps[d] = s
        return d

    # -- ops -------------------------------------------------------------------------
    def do_scan(self, op, evs):
        cfg = self.plan["cfgs"][op["cfg"]]
        kw_src = op.get("kw", cfg.get("kw", {}))
        kw = {}
        for k, v in kw_src.items():
            if isinstance(v, list):
                v = tuple(x.replace("$ROOT", self.scratch) if isinstance(x, str) else x for x in v)
            kw[k] = v
        root = os.path.join(self.scratch, cfg["tree"], cfg["root"])
        module = os.path.join(self.scratch, cfg["tree"], cfg["module"])
        if cfg.get("mk_sibling") and not os.path.isdir(module):
            # a directory next to the root package (outside every root of the world)
            os.makedirs(os.path.join(module, "core"), exist_ok=True)
            for rel, text in (("__init__.py", ""), ("core/__init__.py", ""), ("core/a.py", "import os\n")):
                with open(os.path.join(module, rel), "w") as f:
                    f.write(text)
        order = op.get("order")
        table = {}
        if order:
            for rel, names in order.items():
                table[os.path.join(self.scratch, rel)] = names
        fsseam.begin_scan(table, explicit=bool(order))

        def request():
            if cfg.get("via") == "modobj":
                rm = types.ModuleType("root_module")
                rm.__file__ = os.path.join(root, "__init__.py")
                mm = types.ModuleType("module")
                mm.__file__ = os.path.join(module, "__init__.py")
                return _pa.get_evaluable_architecture_for_module_objects(rm, mm, **kw)
            return _pa.get_evaluable_architecture(root, module, **kw)

        fault = op.get("io_fault")
        fired = 0
        try:
            try:
                if fault:
                    fsseam.arm_fault(fault["kind"], fault["at"], fault.get("err", "EIO"))
                if op.get("abort_at"):
                    ev, lines = call_with_abort(request, op["abort_at"])
                    # the request finished before the chosen point: an ordinary scan
                    self.aborts["missed"] += 1
                else:
                    ev = request()
            finally:
                served = fsseam.end_scan()
                if fault:
                    fired, _ = fsseam.disarm_fault()
                    self.io_faults["fired" if fired else "missed"] += 1
        except InjectedAbort as e:
            self.aborts["scan"] += 1
            return {"r": "ABORTED", "at": str(e)}
        except Exception as e:  # noqa: BLE001 - taxonomy: any Exception = no architecture
            if fired:
                # F15: the disk failed under this request; whatever it raised, it gave no architecture
                return {"r": "IOFAULT", **_exc_info(e, self.scratch)}
            return {"r": "exc", **_exc_info(e, self.scratch), "served": served}
        if fired:
            # the error was swallowed and an architecture came back anyway: nothing is specified
            # about it, so the session does not use it (counted)
            self.io_faults["swallowed"] += 1
            return {"r": "IOFAULT_SWALLOWED"}
        evs[op["ev"]] = ev
        if self.track_ids:
            ids.register(ev)
        ref = self.iso_scan_snap.get(op["cfg"])
        if op.get("cold") and ref is not None:
            # the harness does not look at this architecture before the session uses it (a snapshot
            # walks everything and would fill whatever the library remembers per architecture); what
            # it should look like is known from the reference scan of the same request
            self.ev_snap[_real_id(ev)] = ref
            return {"r": "ok", "cold": True, "served": served}
        d = self._snap(ev)
        self.ev_snap[_real_id(ev)] = d
        return {"r": "ok", "snap": d, "nmod": len(self.snaps[d]["modules"]),
                "served": served}

    def do_new(self, op, ns):
        cls = getattr(_pa, op["cls"])
        kw = {k: self._arg(v, ns) for k, v in op.get("kw", {}).items()}
        try:
            ns[op["obj"]] = cls(**kw)
        except Exception as e:  # noqa: BLE001
            ns.dead.add(op["obj"])
            return {"r": "exc", **_exc_info(e, self.scratch)}
        if self.track_ids:
            ids.register(ns[op["obj"]])
        return {"r": "ok"}

    def do_call(self, op, ns):
        if op["obj"] in ns.dead or op["obj"] not in ns:
            return {"r": "skip"}
        target = ns[op["obj"]]
        aliased = [a for a in op.get("a", []) if isinstance(a, dict) and ("$keep" in a or "$held" in a)]
        if any("$held" in a and a["$held"] not in self.held for a in aliased):
            return {"r": "skip", "why": "no-held-list"}  # only in plans cut down by the minimiser
        args = [self._arg(a, ns) for a in op.get("a", [])]
        # what the caller's lists held at the moment of the call (the harness's own action, logged
        # before the library sees it)
        argv = json.loads(json.dumps(args)) if aliased else None
        try:
            ret = getattr(target, op["m"])(*args)
        except Exception as e:  # noqa: BLE001
            if not op.get("cont"):
                ns.dead.add(op["obj"])  # else: the caller keeps using the object
            return {"r": "exc", **_exc_info(e, self.scratch), **({"argv": argv} if aliased else {})}
        res = {"r": "ok"}
        if aliased:
            res["argv"] = argv
        if ret is not None and ret is not target:
            ns[op["obj"]] = ret
            res["newobj"] = True
            if self.track_ids:
                ids.release(target)
                ids.register(ret)
        return res

    def do_apply(self, op, ns, evs):
        if op["obj"] not in ns and op["obj"] not in ns.dead:
            # no such object (only in plans cut down by the minimiser): nothing to judge
            return {"r": "skip", "why": "no-object"}
        if op["obj"] in ns.dead or op["obj"] not in ns:
            return {"r": "skip"}
        if op["ev"] not in evs:
            return {"r": "skip", "why": "no-evaluable"}
        ev = evs[op["ev"]]
        target = ns[op["obj"]]
        fault = op.get("io_fault")
        fired = 0
        try:
            try:
                if fault:
                    fsseam.arm_fault(fault["kind"], fault["at"], fault.get("err", "EIO"))
                if op.get("abort_at"):
                    self.tainted.add(op["obj"])
                    ret, lines = call_with_abort(lambda: target.assert_applies(ev), op["abort_at"])
                    self.aborts["missed"] += 1
                else:
                    ret = target.assert_applies(ev)
            finally:
                if fault:
                    fired, _ = fsseam.disarm_fault()
                    self.io_faults["fired" if fired else "missed"] += 1
            res = {"r": "PASS"}
            if ret is not None:
                res["ret"] = repr(ret)[:100]
        except InjectedAbort as e:
            self.aborts["apply"] += 1
            res = {"r": "ABORTED", "at": str(e)}
        except AssertionError as e:
            res = {"r": "FAIL", "msg": str(e.args[0]) if e.args else "",
                   "cls": type(e).__name__}
        except Exception as e:  # noqa: BLE001
            res = {"r": "NOVERDICT", **_exc_info(e, self.scratch)}
        if fired:
            # F15: the disk failed under this evaluation (a diagram file could not be read); whatever
            # came out is not a verdict on the architecture; later evaluations are judged as usual
            if res["r"] in ("PASS", "FAIL"):
                self.io_faults["swallowed"] += 1
            res = {"r": "IOFAULT", "was": res["r"], "cls": res.get("cls")}
        if not op.get("nosnap"):
            # (nosnap: the next evaluation follows without the harness looking in between)
            after = self._snap(ev)
            res["ev_before"] = self.ev_snap[_real_id(ev)]
            res["ev_after"] = after
        if op["obj"] in self.tainted:
            res["tainted"] = True
        return res

    def do_drop(self, op, ns, evs):
        """F13: the session lets go of an object (a function-scoped fixture going out of scope);
        a later object may live at the same address."""
        import gc

        if "ev" in op:
            ev = evs.pop(op["ev"], None)
            if ev is None:
                return {"r": "skip"}
            ids.release(ev)
            self.ev_snap.pop(_real_id(ev), None)
            del ev
        else:
            if op["obj"] not in ns:
                return {"r": "skip"}
            ids.release(ns[op["obj"]])
            del ns[op["obj"]]
        gc.collect()
        return {"r": "ok"}

    def do_mutate(self, op):
        """F14: the caller changes a list it passed to an earlier builder call (it is the caller's
        list; what a definition holds is what was supplied at the call)."""
        lst = self.held.get(op["name"])
        if lst is None:
            return {"r": "skip", "why": "no-held-list"}
        how = op["how"]
        before = list(lst)
        if how[0] == "clear":
            lst.clear()
        elif how[0] == "append":
            lst.append(how[1])
        elif how[0] == "pop" and lst:
            lst.pop(how[1] % len(lst))
        elif how[0] == "set" and lst:
            lst[how[1] % len(lst)] = how[2]
        elif how[0] == "reverse":
            lst.reverse()
        elif how[0] == "refill":
            lst[:] = how[1]
        return {"r": "ok", "before": before, "after": list(lst)}

    def do_str(self, op, ns):
        if op["obj"] in ns.dead or op["obj"] not in ns:
            return {"r": "skip"}
        try:
            target = ns[op["obj"]]
            text = _ADDR.sub(" at 0x?", str(target))  # default object repr: address is noise
            return {"r": "ok", "str": text, "cls": type(target).__name__}
        except Exception as e:  # noqa: BLE001
            return {"r": "exc", **_exc_info(e, self.scratch)}

    def do_getitem(self, op, ns):
        if op["obj"] in ns.dead or op["obj"] not in ns:
            return {"r": "skip"}
        try:
            items = ns[op["obj"]][op["k"]]
            return {"r": "ok", "items": [[m.identifier, bool(m.identifier_is_regex)] for m in items]}
        except Exception as e:  # noqa: BLE001
            return {"r": "exc", **_exc_info(e, self.scratch)}

    def do_mapping(self, op, ns):
        """What rules will see of a layer definition (LayeredArchitecture.layer_mapping)."""
        if op["obj"] in ns.dead or op["obj"] not in ns:
            return {"r": "skip"}
        try:
            lm = ns[op["obj"]].layer_mapping
            layers = list(lm.all_layers)
            filters = {l: [[m.identifier, bool(m.identifier_is_regex)]
                           for m in lm.get_module_filters(l)] for l in layers}
            rev = {}
            for l in layers:  # the other direction of the same definition: supplied name -> its layer
                for ident, _ in filters[l]:
                    try:
                        rev[ident] = lm.get_layer_for_module_name(ident)
                    except Exception:  # noqa: BLE001
                        rev = None
                        break
                if rev is None:
                    break
            return {"r": "ok", "layers": layers, "filters": filters, "rev": rev}
        except Exception as e:  # noqa: BLE001
            return {"r": "exc", **_exc_info(e, self.scratch)}

    def do_modules(self, op, evs):
        if op["ev"] not in evs:
            return {"r": "skip"}
        return {"r": "ok", "modules": sorted(evs[op["ev"]].modules)}

    def step(self, op, ns, evs):
        kind = op["op"]
        if kind == "scan":
            return self.do_scan(op, evs)
        if kind == "new":
            return self.do_new(op, ns)
        if kind == "call":
            return self.do_call(op, ns)
        if kind == "apply":
            return self.do_apply(op, ns, evs)
        if kind == "str":
            return self.do_str(op, ns)
        if kind == "getitem":
            return self.do_getitem(op, ns)
        if kind == "modules":
            return self.do_modules(op, evs)
        if kind == "mapping":
            return self.do_mapping(op, ns)
        if kind == "drop":
            return self.do_drop(op, ns, evs)
        if kind == "mutate":
            return self.do_mutate(op)
        raise ValueError(f"unknown op {kind}")

    # -- phases ----------------------------------------------------------------------
    def run_isolated(self):
        """Isolated reference pass: fresh canonical scan per cfg, fresh objects per
        evaluation, each evaluated exactly once."""
        out = {}
        iso = self.plan.get("isolated") or []
        evs = {}
        scans = {}
        for entry in iso:
            cfgid = entry["cfg"]
            if cfgid not in scans:
                scans[cfgid] = self.do_scan({"op": "scan", "ev": cfgid, "cfg": cfgid}, evs)
            ns = NS()
            trace = []
            for op in entry["build"]:
                trace.append(self.step(op, ns, evs)["r"])
            res = self.do_apply({"op": "apply", "obj": entry["obj"], "ev": cfgid}, ns, evs)
            res["build"] = trace
            for o in ns.values():
                ids.release(o)
            out[entry["key"]] = res
            if res.get("ev_after") != res.get("ev_before") and cfgid in evs:
                # keep the reference clean for later entries; the judge reports I2
                ids.release(evs[cfgid])
                del evs[cfgid]
                scans.pop(cfgid, None)
                self.do_scan({"op": "scan", "ev": cfgid, "cfg": cfgid}, evs)
        for ev in evs.values():
            ids.release(ev)
        self.iso_scan_snap = {c: r.get("snap") for c, r in scans.items() if r.get("r") == "ok"}
        return {"scans": scans, "outcomes": out}

    def run_session(self):
        clients = self.plan.get("clients", [])
        pcs = [0] * len(clients)
        ns = self.objs
        for i, c in enumerate(self.plan.get("schedule", [])):
            if pcs[c] >= len(clients[c]):
                continue  # schedule entry without an op (after minimisation)
            op = clients[c][pcs[c]]
            pcs[c] += 1
            res = self.step(op, ns, self.evs)
            self.log.append({"i": i, "c": c, "op": op, "res": res})


_process_scratch = {}


def process_scratch(base=None):
    """One scratch directory per interpreter, created atomically with a unique name (a name built
    from the pid alone can collide with a dead interpreter of another check run whose coordinator
    has not swept yet - pids are recycled quickly on this machine)."""
    import time

    base = base or fsseam.scratch_base()
    if base not in _process_scratch:
        # digits only after the prefix: exclusion patterns of the generated worlds are matched
        # against absolute paths, and a random letter sequence in the scratch name can match one
        # of them ("kay", "pix", ...) - which silently empties every scan of that interpreter
        n = 0
        while True:
            path = os.path.join(base, f"PVS{os.getpid()}_{time.time_ns()}_{n}")
            try:
                os.mkdir(path, 0o700)
                break
            except FileExistsError:
                n += 1
        _process_scratch[base] = path
    return _process_scratch[base]


def hash_canary():
    return list({"alpha", "beta", "gamma", "delta", "epsilon", "zeta", "eta", "theta"})


def execute(plan, scratch_base=None, run_tag="0"):
    """Run one plan. Returns the result dict (event log, isolated outcomes, snapshots)."""
    base = scratch_base or fsseam.scratch_base()
    scratch = os.path.join(process_scratch(base), str(run_tag))
    saved_filters = list(warnings.filters)
    fsseam.reset_counters()
    ids.reset()
    fsseam.materialise(plan.get("world", {}), scratch)
    fsseam.set_root(scratch)
    _warning_count[0] = 0
    sess = Session(plan, scratch)
    try:
        isolated = sess.run_isolated()
        sess.run_session()
    finally:
        fsseam.set_root(None)
        fsseam.cleanup(scratch)
        ids.reset()
        warnings.filters[:] = saved_filters
    return {
        "log": sess.log,
        "isolated": isolated,
        "snaps": sess.snaps,
        "fs": fsseam.counters(),
        "warnings": _warning_count[0],
        # not part of any digest: addresses are not reproducible across processes
        "probes": {"aborts": dict(sess.aborts), "evaluable_address_reused": ids.reused,
                   "io_faults": dict(sess.io_faults),
                   # F14: constants of the caller that no longer hold what the caller put there
                   "caller_list_changed_by_library": sum(
                       1 for k, v in (plan.get("shared_lists") or {}).items()
                       if k in sess.held and sess.held[k] != v)},
    }
