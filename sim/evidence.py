"""Evidence files (/verif/evidence/<id>.json), written by every check run."""
import json
import os

from . import generators

HERE = os.path.dirname(os.path.dirname(os.path.abspath(__file__)))

RULES = {
    "C16": "Each case is one simulated session: 1-4 clients issue LayeredArchitecture / LayerRule "
           "builder calls (sequences enumerated from the reference model up to length 6 by plan "
           "index, plus seeded random longer ones), interleaved call by call by a seeded schedule, "
           "some clients go on using their object after a rejected call, some keep, change and pass "
           "again the list objects they hand to containing_modules (F14; judged by what a list held at "
           "the call), executed under >=2 interpreter hash seeds. Distinct = distinct sha256 of the "
           "(client, op, method, object, argument form) schedule; non-trivial = the session "
           "executed at least one call the model says must be rejected or interleaved two clients.",
    "C15": "Each case is one simulated pytest-like session on shared evaluables: seeded world (tree, "
           "scan configurations, layer definitions, diagrams), 1-6 clients building and evaluating "
           "rules under a seeded schedule with re-application, cross-architecture reuse, argument "
           "permutation, rescans under shuffled readdir order, failing predecessors, evaluations and "
           "scans cancelled at a chosen line inside the library (F12), short-lived evaluables and rule "
           "objects whose id() is handed to their successors (F13), builder calls that share one list "
           "object per distinct name list (F14), scans and diagram-rule evaluations under which the disk "
           "fails once (F15: the k-th listing or the k-th file read raises OSError), executed under >=2 "
           "interpreter hash seeds and compared with isolated evaluations. Distinct = distinct schedule "
           "digest; non-trivial = at least one perturbation (F1-F15) took effect and at least one evaluation "
           "reached a verdict.",
    "C13": "Each case is one simulated session of 1-4 clients issuing fluent-API call chains "
           "(single mutations of complete chains, random chains, complete chains with unknown "
           "names, entry-point option combinations) classified by an independent specification "
           "automaton. Distinct = distinct schedule digest; non-trivial = at least one chain the "
           "automaton classifies bad/incomplete/contradictory/undefined was driven to its end.",
}

ASSUMPTIONS = [
    "CPython 3.12 in /venv; networkx, ast, pathlib and file reads are the real ones (files on tmpfs)",
    "only the ORDER of directory listings is stubbed (os.listdir/os.scandir wrapper); hash "
    "randomisation is CPython's own (PYTHONHASHSEED per fresh interpreter)",
    "the library is synchronous and single-threaded; a step is one public API call; calls are never "
    "pre-empted and resumed (no property states thread safety). C15 only: a call may be CANCELLED at "
    "a seeded line inside the library (sys.settrace raises a BaseException there); the cancelled rule "
    "object is not judged afterwards, the evaluable, other rule objects and later scans are",
    "C15 only: builtins.id is wrapped so that evaluables / rule objects (and library objects two "
    "attribute hops below them) report simulated ids; a slot freed by a `drop` step goes to the next "
    "object of that type (real address reuse is not reproducible across processes)",
    "C15 only: under a request marked for it, builtins.open / io.open or os.listdir / os.scandir raise "
    "OSError (EIO, EACCES or EMFILE) once, at the k-th read or listing below the scratch root; the "
    "failed request itself is never judged (also not when the library swallowed the error), only what "
    "comes after it",
    "C16 / C15: list arguments may be list objects the simulated caller keeps (and, C16, changes "
    "afterwards); what a call supplied is what the list held when the call was made",
    "AssertionError (and subclasses) = verdict 'fail'; any other Exception = no verdict / rejection",
    "seeded search samples the schedule/fault space; a clean run is evidence, not proof",
]


def _trim(obj, depth=0):
    if isinstance(obj, str):
        return obj if len(obj) < 400 else obj[:400] + "…"
    if isinstance(obj, list):
        out = [_trim(x, depth + 1) for x in obj[:40]]
        if len(obj) > 40:
            out.append(f"… {len(obj) - 40} more")
        return out
    if isinstance(obj, dict):
        return {k: _trim(v, depth + 1) for k, v in obj.items()}
    return obj


def collect_samples(prop, seed, pool, n=2):
    samples = []
    for idx in range(n):
        plan = generators.generate(prop, seed, idx)
        res = pool.run(plan, 12345 + idx)
        events = [{"i": e["i"], "client": e["c"],
                   "call": {k: v for k, v in e["op"].items() if k != "order"},
                   "model": e.get("model"),
                   "result": {k: v for k, v in e["res"].items() if k != "served"}}
                  for e in res["result"]["log"]]
        samples.append(_trim({
            "plan_index": idx, "hash_seed": 12345 + idx, "schedule": plan["schedule"],
            "world": plan.get("world"), "cfgs": plan.get("cfgs"), "meta": plan.get("meta"),
            "isolated_outcomes": (res["result"].get("isolated") or {}).get("outcomes"),
            "events": events, "violations": res["violations"]}))
    return samples


def _spaces(prop, cover):
    """Coverage of the systematically enumerated sub-spaces (C13): distinct members executed."""
    if prop == "C16":
        from . import plan_c16

        sizes = {"arch": len(plan_c16.enum_arch()), "rule": len(plan_c16.enum_rule())}
        seen = {k: 0 for k in sizes}
        for tag in cover:
            seen[tag.split(":")[0]] += 1
        what = {"arch": "all LayeredArchitecture builder sequences of length <= 6 over {layer(LA|LB), "
                        "containing_modules(str|[str]|[2 names] over pk.m1, pk.m2), "
                        "have_modules_with_names_matching(2 regexes), with_layer()} whose proper "
                        "prefixes the model accepts",
                "rule": "all LayerRule call-chain prefixes of length <= 6 over {based_on, layers_that, "
                        "are_named(LA|LB|[LA,LB]), 3 verbs, 4 access types, 2 any-layer aliases}"}
        return {k: {"executed_distinct": seen[k], "size": sizes[k], "what": what[k],
                    "complete": seen[k] == sizes[k]} for k in sizes}
    if prop != "C13":
        return {}
    from . import plan_c13

    sizes = {"mut": len(plan_c13.MUT_SPACE), "seq": plan_c13.SEQ_TOTAL, "entry": plan_c13.ENTRY_TOTAL}
    seen = {k: 0 for k in sizes}
    for tag in cover:
        seen[tag.split(":")[0]] += 1
    return {k: {"executed_distinct": seen[k], "size": sizes[k],
                "what": {"mut": "complete chain shapes x single deletion/duplication/transposition",
                         "seq": "all call sequences of length <= 5 over the Rule/LayerRule/DiagramRule vocabularies",
                         "entry": "entry-point option combinations x module placement x entry point"}[k]}
            for k in sizes}


def write(prop, tier, seed, run, out, samples, known_hit, reported, source):
    os.makedirs(os.path.join(HERE, "evidence"), exist_ok=True)
    wall = out["wall"]
    cov = {
        "evaluations": out["executions"],
        "distinct_nontrivial": out["nontrivial"],
        "rule": RULES[prop],
        "samples": samples,
        "runs": out["plans_done"],
        "distinct_schedules": out["distinct_schedules"],
        "seeds": {"VERIF_SEED": seed, "plan_indices": [run.indices[0], run.indices[-1]],
                  "plan_count": run.n_plans,
                  "hash_seeds_used": len(out["hashseeds"]),
                  "hash_seeds_sample": out["hashseeds"][:16],
                  "distinct_set_iteration_orders_observed": out["distinct_hash_orders"]},
        "runs_per_hour": round(out["plans_done"] / wall * 3600) if wall else 0,
        "executions_per_hour": round(out["executions"] / wall * 3600) if wall else 0,
        "logical_steps": out["steps"],
        "simulated_time": "n/a - the system has no clock, timers or deadlines; a step is one "
                          "public API call and the count above is the simulated duration",
        "fault_kinds": out["stats"].get("faults", {}),
        "reach_probes": out["stats"].get("probes", {}),
        "stats": {k: v for k, v in out["stats"].items() if k not in ("faults", "probes")},
        "listing_seam": out["fs"],
        "components": {
            "real": ["pytestarch (all of it, from /repo/src working tree)", "networkx", "ast",
                     "pathlib / open on tmpfs", "CPython hash randomisation (fresh interpreters)",
                     "warnings machinery"],
            "stub": ["order of directory listings (os.listdir / os.scandir wrapper; entries are real)"]
                    + (["object addresses as seen through id() (simulated slots, deterministic reuse)",
                        "cancellation of a call (exception injected by a trace function at a seeded line)",
                        "disk errors (open / listdir wrappers raise OSError once at a seeded operation; "
                        "all other reads and listings are the real ones)"]
                       if prop == "C15" else []),
        },
        "source": source,
        "workers": run.W,
        "replicas_per_plan": run.k,
        "budget_exhausted": out["budget_exhausted"],
        "determinism_selfcheck": out.get("determinism_selfcheck"),
        "comparable_log_aggregate": out.get("cmp_aggregate"),
        "cross_session_isolated_outcomes_compared": out.get("iso_pairs_compared", 0),
        "cross_seed_divergences": out.get("cross_seed_divergences", 0),
        "systematic_spaces": _spaces(prop, out.get("cover") or ()),
        "known_findings_matched": [{"signature": s, "count": n} for s, n in known_hit],
        "violation_signatures": [s for s, _, _ in reported],
        "exhaustive": False,
    }
    doc = {
        "property_id": prop, "tier": tier, "seed": seed, "level": "exploration",
        "coverage": cov, "assumptions": ASSUMPTIONS, "wall_s": round(wall, 2),
        "violations": len(reported),
    }
    path = os.path.join(HERE, "evidence", f"{prop}.json")
    if os.path.realpath(source.get("src", "/repo/src")) != "/repo/src":
        # a run against a scratch copy (mutant / seeded change) must not overwrite the evidence
        # of the registered check, which always comes from /repo itself
        from . import fsseam

        os.makedirs(os.path.join(fsseam.scratch_base(), "verif-scratch-evidence"), exist_ok=True)
        path = os.path.join(fsseam.scratch_base(), "verif-scratch-evidence", f"{prop}.json")
    with open(path, "w") as fh:
        json.dump(doc, fh, indent=1, sort_keys=True)
    return path
