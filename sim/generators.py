"""Dispatch: (property, seed, index) -> explicit plan."""
from . import plan_c16

_GENERATORS = {"C16": plan_c16.generate}

try:  # added as they are built
    from . import plan_c15

    _GENERATORS["C15"] = plan_c15.generate
except ImportError:  # pragma: no cover
    pass
try:
    from . import plan_c13

    _GENERATORS["C13"] = plan_c13.generate
except ImportError:  # pragma: no cover
    pass


def generate(prop, seed, index):
    return _GENERATORS[prop](seed, index)
