"""C15 plan generator: pytest-like sessions on shared evaluables.

generate(seed, index): plans come in groups of GROUP consecutive indices that share one
world and rule pool (world seed = index // GROUP) and differ in clients, schedule and
perturbations (I5: the same evaluation is met after many different histories).
"""
import random

from . import world as W

GROUP = 4

VERBS = ["should", "should_only", "should_not"]
IMPORTS = ["import_modules_that", "be_imported_by_modules_that",
           "import_modules_except_modules_that", "be_imported_by_modules_except_modules_that"]
ANYTHING = ["import_anything", "be_imported_by_anything"]
ACCESS = ["access_layers_that", "be_accessed_by_layers_that",
          "access_layers_except_layers_that", "be_accessed_by_layers_except_layers_that"]
ANY_LAYER = ["access_any_layer", "be_accessed_by_any_layer"]


# ------------------------------------------------------------------------------------
# rule specifications
# ------------------------------------------------------------------------------------
def _misspell(rng, name):
    last = name.rsplit(".", 1)[-1]
    if set(last) & set("- ~") and rng.random() < 0.5:
        cut = min(i for i, ch in enumerate(last) if ch in "- ~")
        if cut:
            return name[: len(name) - len(last) + cut]  # "pkg.core-old" -> "pkg.core"
    r = rng.random()
    if r < 0.4:
        return name + "x"
    if r < 0.7:
        return name + ".deeper"
    return name.rsplit(".", 1)[0] + ".nosuch" if "." in name else name + "q"


def _batch(rng, pool, mods, k, related=0.5):
    """k distinct names from `pool`; half of the batches are *related* (a module together with
    modules below it), the combination in which set order and list order matter most."""
    k = min(k, len(pool))
    if k >= 2 and rng.random() < related:
        tops = [p for p in pool if any(m.startswith(p + ".") for m in mods)]
        if tops:
            top = W.pick(rng, tops)
            below = [m for m in (pool if rng.random() < 0.6 else mods) if m.startswith(top + ".")]
            vals = [top] + rng.sample(below, min(k - 1, len(below)))
            rest = [p for p in pool if p not in vals]
            while len(vals) < k and rest:
                vals.append(rest.pop(rng.randrange(len(rest))))
            rng.shuffle(vals)
            return vals
    return rng.sample(pool, k)


def _gen_filter(rng, modules, unknown_rate, allow_batch=True, hier=False):
    """{'f': method, 'v': [values]} drawn from the predicted modules of the target cfg.
    hier: sessions about the module hierarchy (batches of a package and things below it)."""
    mods = [m for m in modules if not m.endswith("__init__")] or list(modules)
    r = rng.random()
    single = 0.3 if hier else 0.6
    related = 0.85 if hier else 0.5
    if r < (0.4 if hier else 0.55):
        k = 1 if not allow_batch or rng.random() < single else rng.randint(2, 3)
        vals = _batch(rng, mods, mods, k, related)
        vals = [_misspell(rng, v) if rng.random() < unknown_rate else v for v in vals]
        return {"f": "are_named", "v": vals}
    if r < (0.85 if hier else 0.72):
        parents = sorted({m.rsplit(".", 1)[0] for m in mods if "." in m}) or mods
        k = 1 if not allow_batch or rng.random() < single else rng.randint(2, 3)
        vals = _batch(rng, parents, mods, k, related)
        vals = [_misspell(rng, v) if rng.random() < unknown_rate else v for v in vals]
        return {"f": "are_sub_modules_of", "v": vals}
    if r < 0.9:
        m = W.pick(rng, mods)
        last = m.rsplit(".", 1)[-1]
        form = rng.random()
        if rng.random() < unknown_rate:
            rx = ".*nosuchthing.*"
        elif form < 0.15 and len(mods) > 2:
            others = rng.sample([x for x in mods if x != m], min(len(mods) - 1, rng.randint(1, 2)))
            rx = "^(" + "|".join(x.replace(".", "\\.") for x in sorted([m] + others)) + ")$"
        elif form < 0.35:
            rx = "^" + m.replace(".", "\\.") + "$"
        elif form < 0.6:
            rx = "^" + m.replace(".", "\\.") + "(\\..*)?$"
        elif form < 0.8:
            rx = ".*" + last + ".*"
        else:
            rx = ".*\\." + last + "$"
        if allow_batch and rng.random() < 0.15 and len(mods) > 1:
            # the list form shown in the documentation
            m2 = W.pick(rng, [x for x in mods if x != m])
            rx2 = ".*nosuchthing.*" if rng.random() < unknown_rate else "^" + m2.replace(".", "\\.") + "$"
            if rx2 != rx:
                return {"f": "have_name_matching", "v": sorted([rx, rx2])}
        return {"f": "have_name_matching", "v": [rx]}
    m = W.pick(rng, mods)
    last = m.rsplit(".", 1)[-1]
    form = rng.random()
    if rng.random() < unknown_rate:
        pn = "*nosuchthing*"
    elif form < 0.4:
        pn = f"*{last}*"
    elif form < 0.6:
        pn = f"*.{last}"
    elif form < 0.8:
        pn = m
    else:
        pn = m + "*"
    vals = [pn]
    if allow_batch and rng.random() < 0.2:
        vals.append(f"*{W.pick(rng, mods).rsplit('.', 1)[-1]}*")
    return {"f": "have_name_containing", "v": sorted(set(vals))}


def gen_module_spec(rng, modules, unknown_rate, hier=False):
    spec = {"kind": "module", "subj": _gen_filter(rng, modules, unknown_rate, hier=hier),
            "verb": W.pick(rng, VERBS)}
    if rng.random() < 0.15:
        spec["imp"] = W.pick(rng, ANYTHING)
        if rng.random() < 0.85:
            spec["verb"] = "should_not"
        spec["obj"] = None
    else:
        spec["imp"] = W.pick(rng, IMPORTS)
        spec["obj"] = _gen_filter(rng, modules, unknown_rate, hier=hier)
    return spec


def gen_layer_spec(rng, arch_id, arch):
    layers = [n for n, _ in arch]
    subj = W.pick(rng, layers)
    spec = {"kind": "layer", "arch": arch_id, "subj": subj, "verb": W.pick(rng, VERBS)}
    if rng.random() < 0.15:
        spec["acc"] = W.pick(rng, ANY_LAYER)
        if rng.random() < 0.85:
            spec["verb"] = "should_not"
        spec["obj"] = None
    else:
        spec["acc"] = W.pick(rng, ACCESS)
        others = [n for n in layers if n != subj] or layers
        k = 1 if rng.random() < 0.6 else min(2, len(others))
        spec["obj"] = rng.sample(others, k)
    return spec


def gen_diagram_spec(rng, puml_id, puml):
    naming = "base" if rng.random() < 0.85 else "included"
    return {"kind": "diagram", "puml": puml_id, "should_only": rng.random() < 0.6,
            "naming": naming, "base": puml["base"]}


# ------------------------------------------------------------------------------------
# compilation of a specification into builder ops (canonical or permuted)
# ------------------------------------------------------------------------------------
def _listarg(vals, rng):
    """Single values are written as a plain str canonically; a perturbed build may use [str]."""
    if len(vals) == 1:
        if rng is not None and rng.random() < 0.3:
            return [vals[0]]
        return vals[0]
    out = sorted(vals)
    if rng is not None:
        rng.shuffle(out)
    return out


def compile_arch(obj, arch, rng=None):
    """Builder ops for a LayeredArchitecture; canonical = layers and modules sorted."""
    layers = sorted(arch, key=lambda x: x[0])
    if rng is not None:
        rng.shuffle(layers)
    ops = [{"op": "new", "obj": obj, "cls": "LayeredArchitecture"}]
    for name, content in layers:
        if rng is not None and rng.random() < 0.3:
            ops.append({"op": "call", "obj": obj, "m": "with_layer", "a": []})
        ops.append({"op": "call", "obj": obj, "m": "layer", "a": [name]})
        if content[0] == "mods":
            arg = _listarg(list(content[1]), rng)
            ops.append({"op": "call", "obj": obj, "m": "containing_modules", "a": [arg]})
        else:
            ops.append({"op": "call", "obj": obj, "m": "have_modules_with_names_matching",
                        "a": [content[1]]})
    return ops


def compile_spec(obj, spec, rng=None, arch_obj=None):
    """Builder ops for one rule object. rng=None gives the canonical build."""
    ops = []
    if spec["kind"] == "module":
        ops.append({"op": "new", "obj": obj, "cls": "Rule"})
        ops.append({"op": "call", "obj": obj, "m": "modules_that", "a": []})
        f = spec["subj"]
        arg = f["v"][0] if f["f"] == "have_name_matching" and len(f["v"]) == 1 else _listarg(f["v"], rng)
        ops.append({"op": "call", "obj": obj, "m": f["f"], "a": [arg]})
        ops.append({"op": "call", "obj": obj, "m": spec["verb"], "a": []})
        ops.append({"op": "call", "obj": obj, "m": spec["imp"], "a": []})
        if spec["obj"] is not None:
            f = spec["obj"]
            arg = f["v"][0] if f["f"] == "have_name_matching" and len(f["v"]) == 1 else _listarg(f["v"], rng)
            ops.append({"op": "call", "obj": obj, "m": f["f"], "a": [arg]})
    elif spec["kind"] == "layer":
        ops.append({"op": "new", "obj": obj, "cls": "LayerRule"})
        ops.append({"op": "call", "obj": obj, "m": "based_on", "a": [{"$obj": arch_obj}]})
        ops.append({"op": "call", "obj": obj, "m": "layers_that", "a": []})
        ops.append({"op": "call", "obj": obj, "m": "are_named", "a": [spec["subj"]]})
        ops.append({"op": "call", "obj": obj, "m": spec["verb"], "a": []})
        ops.append({"op": "call", "obj": obj, "m": spec["acc"], "a": []})
        if spec["obj"] is not None:
            ops.append({"op": "call", "obj": obj, "m": "are_named",
                        "a": [_listarg(spec["obj"], rng)]})
    else:
        ops.append({"op": "new", "obj": obj, "cls": "DiagramRule",
                    "kw": {"should_only_rule": spec["should_only"]}})
        ops.append({"op": "call", "obj": obj, "m": "from_file", "a": [{"$puml": spec["puml"]}]})
        if spec["naming"] == "base":
            ops.append({"op": "call", "obj": obj, "m": "with_base_module", "a": [spec["base"]]})
        else:
            ops.append({"op": "call", "obj": obj, "m": "base_module_included_in_module_names",
                        "a": []})
    return ops


def spec_permutable(spec):
    if spec["kind"] == "module":
        return len(spec["subj"]["v"]) > 1 or bool(spec["obj"] and len(spec["obj"]["v"]) > 1)
    if spec["kind"] == "layer":
        return bool(spec["obj"] and len(spec["obj"]) > 1)
    return False


# ------------------------------------------------------------------------------------
def gen_world(wseed):
    """World + evaluation pool, shared by the GROUP plans of one world seed."""
    rng = random.Random(f"{wseed}:world")
    exotic = rng.choice([0.0, 0.0, 0.0, 0.2])
    ntrees = 1 if rng.random() < 0.6 else 2
    trees = {}
    cfgs = {}
    predicted = {}
    layer_focus = rng.random() < 0.25  # sessions about layer rules over pattern-defined layers
    hier_focus = (not layer_focus) and rng.random() < 0.3  # sessions about packages and what lies below them
    for t in range(ntrees):
        if t == 1 and rng.random() < 0.6:
            tree = W.variant_tree(rng, trees["t0"], "t1")
        else:
            tree = W.gen_tree(rng, f"t{t}", exotic, pkg_bias=0.5 if hier_focus else 0.0, p_links=0.15)
        trees[tree.name] = tree
        ncfg = rng.randint(2, 4) if t == 0 else rng.randint(1, 2)
        for j in range(ncfg):
            cid = f"c{len(cfgs)}"
            cfg, mods = W.gen_cfg(rng, tree, plain=(j == 0))
            cfgs[cid] = cfg
            predicted[cid] = mods
    cfg_ids = sorted(cfgs)
    # layered architectures
    archs = {}
    for a in range(rng.randint(1, 2)):
        target = W.pick(rng, cfg_ids)
        arch = W.gen_arch(rng, predicted[target],
                          all_named=(rng.random() < 0.7 and not layer_focus),
                          universe=trees[cfgs[target]["tree"]].all_modules(),
                          p_regex=0.7 if layer_focus else 0.35)
        if len(arch) >= 2:
            archs[f"A{a}"] = {"layers": [[n, [c[0], c[1]]] for n, c in arch], "cfg": target}
    # diagrams
    pumls = {}
    for p in range(rng.randint(0, 2)):
        target = W.pick(rng, cfg_ids)
        tree = trees[cfgs[target]["tree"]]
        pu = W.gen_puml(rng, tree, predicted[target])
        if pu:
            pu["cfg"] = target
            pumls[f"p{p}"] = pu
    # rule pool
    unknown_rate = rng.choice([0.0, 0.05, 0.15, 0.3])
    specs = {}
    nspecs = rng.randint(8, 24)
    for s in range(nspecs):
        r = rng.random()
        target = W.pick(rng, cfg_ids)
        if r < (0.6 if layer_focus else 0.2) and archs:
            aid = W.pick(rng, sorted(archs))
            arch = [(n, tuple(c)) for n, c in archs[aid]["layers"]]
            spec = gen_layer_spec(rng, aid, arch)
            target = archs[aid]["cfg"]
        elif r < 0.32 and pumls:
            pid = W.pick(rng, sorted(pumls))
            spec = gen_diagram_spec(rng, pid, pumls[pid])
            target = pumls[pid]["cfg"]
        else:
            if len(predicted[target]) < 2:
                target = cfg_ids[0]
            if len(predicted[target]) < 2:
                continue
            spec = gen_module_spec(rng, predicted[target], unknown_rate, hier=hier_focus)
        spec["target"] = target
        specs[f"s{s}"] = spec
    world = {"trees": {n: t.spec() for n, t in trees.items()},
             "pumls": {p: v["text"] for p, v in pumls.items()}}
    return {"world": world, "cfgs": cfgs, "archs": archs, "specs": specs,
            "trees": trees, "predicted": predicted}


def _listing_order(rng, tree, shuffled):
    order = {}
    if not shuffled:
        return None
    linked = {k: v for k, v in tree.links.items() if v in tree.dirs}
    for d in sorted(tree.dirs):
        kids = tree.children(d)
        mode = rng.random()
        if mode < 0.6:
            rng.shuffle(kids)
        elif mode < 0.8:
            kids.reverse()
        order[f"{tree.name}/{d}"] = kids  # explicit for every directory (sorted otherwise)
    # directories reached through a link are listed under the link's name; the second visit of
    # the same real directory may be served in another order
    for link, target in sorted(linked.items()):
        for d in sorted(tree.dirs):
            if (d == target or d.startswith(target + "/")) and rng.random() < 0.5:
                kids = tree.children(d)
                rng.shuffle(kids)
                order[f"{tree.name}/{link}{d[len(target):]}"] = kids
    return order


def _perm_kw(rng, kw):
    """Same options, list-valued ones written in another order."""
    out = {}
    changed = False
    for k, v in kw.items():
        if isinstance(v, list) and len(v) > 1:
            v2 = list(v)
            rng.shuffle(v2)
            changed = changed or v2 != v
            out[k] = v2
        else:
            out[k] = v
    return out, changed


def generate(seed, index):
    wseed = f"{seed}:C15:{index // GROUP}"
    wd = gen_world(wseed)
    rng = random.Random(f"{seed}:C15:{index}:session")
    cfgs, specs, archs, trees = wd["cfgs"], wd["specs"], wd["archs"], wd["trees"]
    cfg_ids = sorted(cfgs)
    spec_ids = sorted(specs)
    swarm = {
        "shuffle_listing": rng.random() < 0.8,
        "permute_args": rng.random() < 0.8,
        "reapply": rng.random() < 0.8,
        "cross_arch": rng.random() < 0.8,
        "rescan": rng.random() < 0.6,
        "interleave": rng.random() < 0.85,
        "observe": rng.random() < 0.6,
        "abort": rng.random() < 0.35,
        "lifetimes": rng.random() < 0.4,
        "shared_constants": rng.random() < 0.35,
        "io_errors": rng.random() < 0.3,
        # the harness keeps its eyes shut: shared evaluables are not looked at before their first use
        # and most evaluations are not followed by a snapshot
        "quiet": rng.random() < 0.35,
    }
    nclients = rng.randint(1, 6)
    n_evals = rng.randint(5, 40)

    setup = []
    faults = {"F1_readdir_order": 0, "F3_history_order": 0, "F4_reapply_same": 0,
              "F5_reapply_other": 0, "F6_arg_permutation": 0, "F7_rescan": 0,
              "F9_client_interleave": 0, "F11_observation_between_evaluations": 0,
              "F12_abort_planned": 0, "F13_object_dropped": 0, "F14_shared_argument_lists": 0,
              "F15_io_error_planned": 0}
    # evaluables: one per cfg, created in the setup phase under a chosen listing order
    evs = {}  # ev id -> cfg id
    ev_of_cfg = {}
    for cid in cfg_ids:
        tree = trees[cfgs[cid]["tree"]]
        op = {"op": "scan", "ev": f"E{len(evs)}", "cfg": cid}
        if swarm["quiet"] and rng.random() < 0.7:
            op["cold"] = True
        order = _listing_order(rng, tree, swarm["shuffle_listing"])
        if order:
            op["order"] = order
            faults["F1_readdir_order"] += 1
        if swarm["permute_args"]:
            kw2, changed = _perm_kw(rng, cfgs[cid]["kw"])
            if changed:
                op["kw"] = kw2
                faults["F6_arg_permutation"] += 1
        evs[op["ev"]] = cid
        ev_of_cfg.setdefault(cid, []).append(op["ev"])
        setup.append(op)
    # shared layered architectures (finished before anybody uses them)
    for aid in sorted(archs):
        arch = [(n, tuple(c)) for n, c in archs[aid]["layers"]]
        prng = random.Random(f"{seed}:{index}:{aid}") if swarm["permute_args"] else None
        setup.extend(compile_arch(aid, arch, prng))
        setup.append({"op": "str", "obj": aid})  # reference listing of the shared definition
        if prng is not None:
            faults["F6_arg_permutation"] += 1

    # rule objects: (spec, build permutation); some shared (built in setup), some owned
    robjs = {}  # obj id -> spec id
    client_ops = [[] for _ in range(nclients)]
    shared = []
    built = {}

    def new_rule_obj(sid, owner):
        oid = f"R{len(robjs)}"
        robjs[oid] = sid
        spec = specs[sid]
        prng = None
        if swarm["permute_args"] and (spec_permutable(spec) or rng.random() < 0.3):
            prng = random.Random(f"{seed}:{index}:{oid}")
            faults["F6_arg_permutation"] += 1
        ops = compile_spec(oid, spec, prng, arch_obj=spec.get("arch"))
        if owner is None:
            setup.extend(ops)
            shared.append(oid)
        else:
            client_ops[owner].extend(ops)
        return oid

    used_pairs = []
    if spec_ids:
        for _ in range(rng.randint(0, 3)):
            new_rule_obj(W.pick(rng, spec_ids), None)
    for c in range(nclients):
        budget = max(1, n_evals // nclients + rng.randint(-1, 2))
        own = []
        own_evs = {}
        while budget > 0 and spec_ids:
            if swarm["lifetimes"] and rng.random() < 0.12:
                # F13: a short-lived evaluable (function-scoped fixture): scan, evaluate, let go,
                # scan something else (which may now live at the same address), evaluate the
                # same rule object again
                oid = W.pick(rng, own) if own and rng.random() < 0.5 else None
                if oid is None:
                    oid = new_rule_obj(W.pick(rng, spec_ids), c)
                    own.append(oid)
                target = specs[robjs[oid]]["target"]
                same_tree = [k for k in cfg_ids if cfgs[k]["root"] == cfgs[target]["root"]]
                others = [k for k in same_tree if k != target]
                second = W.pick(rng, others) if others and rng.random() < 0.8 else target
                for cid in (target, second):
                    tree = trees[cfgs[cid]["tree"]]
                    sop = {"op": "scan", "ev": f"E{len(evs)}", "cfg": cid,
                           **({"cold": True} if rng.random() < 0.5 else {})}
                    order = _listing_order(rng, tree, swarm["shuffle_listing"])
                    if order:
                        sop["order"] = order
                    evs[sop["ev"]] = cid
                    client_ops[c].append(sop)
                    for _ in range(rng.randint(1, 2)):
                        client_ops[c].append({"op": "apply", "obj": oid, "ev": sop["ev"],
                                              "key": f"{robjs[oid]}|{cid}"})
                        used_pairs.append((robjs[oid], cid))
                        budget -= 1
                    client_ops[c].append({"op": "drop", "ev": sop["ev"]})
                    faults["F13_object_dropped"] += 1
                if rng.random() < 0.5:
                    client_ops[c].append({"op": "drop", "obj": oid})
                    own.remove(oid)
                    faults["F13_object_dropped"] += 1
                continue
            if swarm["abort"] and rng.random() < 0.1:
                # F12: an evaluation (or a scan) is cancelled at a chosen point inside the
                # library; the cancelled rule object is not judged afterwards, everything else
                # (the evaluable, other rule objects, later scans) is
                r12 = rng.random()
                if r12 < 0.3:
                    # cold start: the cancelled evaluation is the FIRST thing that happens on a fresh
                    # evaluable (whatever a library remembers per architecture is being filled right
                    # then); other rules of the same project are evaluated on it straight afterwards
                    oid = new_rule_obj(W.pick(rng, spec_ids), c)
                    cid = specs[robjs[oid]]["target"]
                    tree = trees[cfgs[cid]["tree"]]
                    sop = {"op": "scan", "ev": f"E{len(evs)}", "cfg": cid, "cold": True}
                    order = _listing_order(rng, tree, swarm["shuffle_listing"])
                    if order:
                        sop["order"] = order
                    evs[sop["ev"]] = cid
                    client_ops[c].append(sop)
                    own_evs.setdefault(cid, []).append(sop["ev"])
                    ev_of_cfg[cid].append(sop["ev"])
                    k = int(round(10 ** (rng.random() * 3.6)))
                    client_ops[c].append({"op": "apply", "obj": oid, "ev": sop["ev"], "abort_at": k,
                                          "key": f"{robjs[oid]}|{cid}", "nosnap": True})
                    used_pairs.append((robjs[oid], cid))
                    same_target = [x for x in spec_ids if specs[x]["target"] == cid]
                    n_more = rng.randint(2, 4)
                    for j in range(n_more):
                        # the same specification on a new object, or another rule of the project
                        sid2 = robjs[oid] if rng.random() < 0.3 else W.pick(rng, same_target)
                        o2 = new_rule_obj(sid2, c)
                        own.append(o2)
                        client_ops[c].append({"op": "apply", "obj": o2, "ev": sop["ev"],
                                              "key": f"{sid2}|{cid}",
                                              **({"nosnap": True} if j < n_more - 1 else {})})
                        used_pairs.append((sid2, cid))
                        budget -= 1
                elif r12 < 0.75:
                    oid = new_rule_obj(W.pick(rng, spec_ids), c)
                    cid = specs[robjs[oid]]["target"]
                    ev = W.pick(rng, [ev_of_cfg[cid][0]] + own_evs.get(cid, []))
                    k = int(round(10 ** (rng.random() * 3.6)))
                    client_ops[c].append({"op": "apply", "obj": oid, "ev": ev, "abort_at": k,
                                          "key": f"{robjs[oid]}|{cid}"})
                    used_pairs.append((robjs[oid], cid))
                else:
                    cid = W.pick(rng, cfg_ids)
                    tree = trees[cfgs[cid]["tree"]]
                    k = int(round(10 ** (rng.random() * 4.3)))
                    sop = {"op": "scan", "ev": f"E{len(evs)}", "cfg": cid, "abort_at": k}
                    order = _listing_order(rng, tree, swarm["shuffle_listing"])
                    if order:
                        sop["order"] = order
                    evs[sop["ev"]] = cid
                    client_ops[c].append(sop)
                    # a request is made right away - the same again, or another one: it must give
                    # the usual result
                    if rng.random() < 0.5:
                        cid = W.pick(rng, cfg_ids)
                    sop2 = {"op": "scan", "ev": f"E{len(evs)}", "cfg": cid}
                    evs[sop2["ev"]] = cid
                    client_ops[c].append(sop2)
                    own_evs.setdefault(cid, []).append(sop2["ev"])
                    ev_of_cfg[cid].append(sop2["ev"])
                faults["F12_abort_planned"] += 1
                budget -= 1
                continue
            if swarm["io_errors"] and rng.random() < 0.1:
                # F15: the disk fails once under a scan (the k-th directory listing or the k-th file
                # opened raises OSError) or under the evaluation of a diagram rule (its file cannot be
                # read); the failed request is not judged, the same request made again is, and so is
                # everything that comes after it
                diagram_sids = [x for x in spec_ids if specs[x]["kind"] == "diagram"]
                err = rng.choice(["EIO", "EIO", "EACCES", "EMFILE"])
                if diagram_sids and rng.random() < 0.4:
                    oid = new_rule_obj(W.pick(rng, diagram_sids), c)
                    own.append(oid)
                    cid = specs[robjs[oid]]["target"]
                    ev = W.pick(rng, [ev_of_cfg[cid][0]] + own_evs.get(cid, []))
                    key = f"{robjs[oid]}|{cid}"
                    if rng.random() < 0.5:
                        client_ops[c].append({"op": "apply", "obj": oid, "ev": ev, "key": key})
                    client_ops[c].append({"op": "apply", "obj": oid, "ev": ev, "key": key,
                                          "io_fault": {"kind": "open", "at": 1, "err": err}})
                    client_ops[c].append({"op": "apply", "obj": oid, "ev": ev, "key": key})
                    used_pairs.append((robjs[oid], cid))
                else:
                    cid = W.pick(rng, cfg_ids)
                    tree = trees[cfgs[cid]["tree"]]
                    k = int(round(10 ** (rng.random() * 1.3)))
                    sop = {"op": "scan", "ev": f"E{len(evs)}", "cfg": cid,
                           "io_fault": {"kind": rng.choice(["listdir", "open", "open"]), "at": k, "err": err}}
                    order = _listing_order(rng, tree, swarm["shuffle_listing"])
                    if order:
                        sop["order"] = order
                    evs[sop["ev"]] = cid
                    client_ops[c].append(sop)
                    # the next request - the same one again, or another one (other options, other
                    # tree): whatever the failed walk had collected must not end up in it
                    if rng.random() < 0.5:
                        cid = W.pick(rng, cfg_ids)
                    sop2 = {"op": "scan", "ev": f"E{len(evs)}", "cfg": cid}
                    evs[sop2["ev"]] = cid
                    client_ops[c].append(sop2)
                    own_evs.setdefault(cid, []).append(sop2["ev"])
                    ev_of_cfg[cid].append(sop2["ev"])
                faults["F15_io_error_planned"] += 1
                budget -= 1
                continue
            r = rng.random()
            if own and r < 0.35:
                oid = W.pick(rng, own)
            elif shared and r < 0.55:
                oid = W.pick(rng, shared)
            else:
                oid = new_rule_obj(W.pick(rng, spec_ids), c)
                own.append(oid)
            spec = specs[robjs[oid]]
            target = spec["target"]
            # other scans of the same project: the same tree, or a sibling checkout of it
            same_tree = [k for k in cfg_ids if cfgs[k]["root"] == cfgs[target]["root"]]
            seq = [target]
            if swarm["reapply"] and rng.random() < 0.4:
                n = rng.randint(1, 3)
                seq += [target] * n
                faults["F4_reapply_same"] += n
            if swarm["cross_arch"] and len(same_tree) > 1 and rng.random() < 0.4:
                other = W.pick(rng, [k for k in same_tree if k != target])
                seq += [other, target]
                faults["F5_reapply_other"] += 1
            for cid in seq:
                if swarm["rescan"] and rng.random() < 0.08:
                    tree = trees[cfgs[cid]["tree"]]
                    op = {"op": "scan", "ev": f"E{len(evs)}", "cfg": cid,
                          **({"cold": True} if rng.random() < 0.3 else {})}
                    order = _listing_order(rng, tree, True)
                    if order:
                        op["order"] = order
                    evs[op["ev"]] = cid
                    ev_of_cfg[cid].append(op["ev"])
                    client_ops[c].append(op)
                    own_evs.setdefault(cid, []).append(op["ev"])
                    faults["F7_rescan"] += 1
                    ev = op["ev"]
                else:
                    # an evaluable of that cfg that exists for sure: the one from the setup
                    # phase, or one this client created itself by a rescan
                    ev = W.pick(rng, [ev_of_cfg[cid][0]] + own_evs.get(cid, []))
                key = f"{robjs[oid]}|{cid}"
                if swarm["observe"] and rng.random() < 0.15:
                    # read-only observations between evaluations: none of them may matter
                    r3 = rng.random()
                    if r3 < 0.4:
                        client_ops[c].append({"op": "str", "obj": oid})
                    elif r3 < 0.7:
                        client_ops[c].append({"op": "modules", "ev": ev})
                    elif spec.get("arch"):
                        client_ops[c].append({"op": "str", "obj": spec["arch"]})
                    faults["F11_observation_between_evaluations"] += 1
                client_ops[c].append({"op": "apply", "obj": oid, "ev": ev, "key": key,
                                      **({"nosnap": True} if swarm["quiet"] and rng.random() < 0.7 else {})})
                if spec.get("arch") and rng.random() < 0.3:
                    client_ops[c].append({"op": "str", "obj": spec["arch"]})
                used_pairs.append((robjs[oid], cid))
                budget -= 1
    client_ops[0] = setup + client_ops[0]
    shared_lists = {}
    if swarm["shared_constants"]:
        # F14: the test module keeps its name lists in constants; every builder call of the session
        # that lists the same names is handed the very same list object (in the order of its first
        # use: a different order is an F6 permutation anyway)
        users = {}
        for ops in client_ops:
            for op in ops:
                a = op.get("a") or []
                if op["op"] == "call" and a and isinstance(a[0], list) and all(isinstance(x, str) for x in a[0]):
                    key = "\x00".join(sorted(a[0]))
                    name = users.setdefault(key, [f"K{len(users)}", list(a[0]), 0])
                    name[2] += 1
                    op["a"] = [{"$shared": name[0]}] + a[1:]
        for key in sorted(users):
            name, vals, n = users[key]
            shared_lists[name] = vals
            if n > 1:
                faults["F14_shared_argument_lists"] += 1
    schedule = [0] * len(setup)
    rest = []
    for c, ops in enumerate(client_ops):
        rest.extend([c] * (len(ops) - (len(setup) if c == 0 else 0)))
    if swarm["interleave"]:
        rng.shuffle(rest)
    if rest != sorted(rest):
        faults["F9_client_interleave"] = 1
        faults["F3_history_order"] = 1
    schedule += rest

    isolated = []
    for sid, cid in sorted(set(used_pairs)):
        spec = specs[sid]
        build = []
        if spec["kind"] == "layer":
            arch = [(n, tuple(c)) for n, c in archs[spec["arch"]]["layers"]]
            build.extend(compile_arch("ARCH", arch, None))
        build.extend(compile_spec("RULE", spec, None, arch_obj="ARCH"))
        isolated.append({"key": f"{sid}|{cid}", "cfg": cid, "obj": "RULE", "build": build})

    return {
        "prop": "C15", "seed": seed, "index": index, "world_group": index // GROUP,
        "world": wd["world"], "cfgs": cfgs, "clients": client_ops, "schedule": schedule,
        "isolated": isolated, "atomic_builds": True, "shared_lists": shared_lists,
        "meta": {"swarm": swarm, "faults": faults, "specs": specs, "archs": archs,
                 "n_setup": len(setup)},
    }
