"""Invariant checks over (plan, execution result). Pure functions; run inside the worker.

Each judge returns {"violations": [...], "stats": {...}}.  A violation is
{"inv": name, "sig": signature string, "step": event index, "detail": {...}}.
"""
import re

from . import models
from .models import MUST_REJECT


def _tokens(text, vocab):
    rx = re.compile("|".join(re.escape(t) for t in sorted(vocab, key=lambda t: (-len(t), t))))
    return rx.findall(text)


def _bump(d, k, n=1):
    d[k] = d.get(k, 0) + n


def form(op):
    """Argument form of a call (for coverage keys and schedule signatures)."""
    m = op.get("m") or op.get("op")
    a = op.get("a") or []
    if not a:
        return m
    if isinstance(a[0], list):
        return f"{m}(list{len(a[0])})"
    if isinstance(a[0], dict):
        if "$keep" in a[0]:
            return f"{m}(kept-list{len(a[0]['v'])})"
        if "$held" in a[0]:
            return f"{m}(held-list)"
        return f"{m}(obj)"
    return f"{m}(str)"


def canon_args(a):
    import json
    return json.dumps(a, sort_keys=True)


def _is_fresh_twin(restarted, fresh):
    """J4 compares a rule whose sentence was started over with a fresh rule that received exactly
    the calls of the last sentence (same architecture), every call of both accepted."""
    if not restarted or not fresh:
        return False
    if any(r != "ok" for _, _, r in restarted) or any(r != "ok" for _, _, r in fresh):
        return False
    if restarted[0][0] != "based_on" or fresh[0][:2] != restarted[0][:2]:
        return False
    starts = [i for i, c in enumerate(restarted) if c[0] == "layers_that"]
    if not starts:
        return False
    return [c[:2] for c in fresh[1:]] == [c[:2] for c in restarted[starts[-1]:]]


def _alias_sfx(passed, mutated, obj):
    return "/caller-list-changed-since" if passed.get(obj, set()) & mutated else ""


# ------------------------------------------------------------------------------------
def judge_c16(plan, result):
    """J1/J2/J3. The judge walks its own reference model along the calls each object
    actually received (so a minimised plan is judged for what it is)."""
    viol = []
    st = {"calls": 0, "must_reject": 0, "rejected_as_required": 0, "accepted_checked": 0,
          "unexpected_rejections": {}, "transitions": {}, "listing_checks": 0, "skipped": 0}
    vocab = plan.get("vocab", [])
    model = {}  # obj -> model instance; removed once the object left the specified domain
    after_reject = {}
    tagged = {}  # tag -> (step, outcome, object) of an evaluation a later twin is compared with (J4)
    calls_of = {}  # obj -> [(method, arguments, outcome)]
    passed = {}  # obj -> names of caller-owned lists it was handed (F14)
    mutated = set()  # caller-owned lists changed after they were handed over
    for ev in result["log"]:
        op, res = ev["op"], ev["res"]
        obj = op.get("obj")
        if op["op"] == "mutate":
            if res.get("r") == "ok" and res.get("before") != res.get("after"):
                mutated.add(op["name"])
                st["caller_list_mutations"] = st.get("caller_list_mutations", 0) + 1
            continue
        if op["op"] == "call" and op.get("cont") and res.get("r") == "exc":
            after_reject[obj] = True
        if op["op"] == "new":
            if res["r"] == "ok":
                model[obj] = (models.LayerDefModel() if op["cls"] == "LayeredArchitecture"
                              else models.LayerRuleModel())
            continue
        if op["op"] == "call":
            # every call an object received, with its outcome (J4 compares only true twins)
            calls_of.setdefault(obj, []).append((op["m"], canon_args(op.get("a")), res.get("r")))
        if res["r"] == "skip":
            st["skipped"] += 1
            continue
        if op["op"] == "apply":
            # J4: a LayerRule whose sentence was started over (layers_that() again) has exactly the
            # subject layer of its new sentence: same outcome as a fresh rule given only that sentence
            if op.get("tag"):
                tagged[op["tag"]] = (ev["i"], res, obj)
            ref = tagged.get(op.get("twin_of"))
            if ref is not None and not _is_fresh_twin(calls_of.get(ref[2]), calls_of.get(obj)):
                # (a plan cut down by the minimiser: this is no longer the fresh twin of that rule)
                st["restart_twins_not_comparable"] = st.get("restart_twins_not_comparable", 0) + 1
                ref = None
            if ref is not None:
                st["restart_twins_compared"] = st.get("restart_twins_compared", 0) + 1
                a, b = ref[1], res
                same = _cls(a) == _cls(b) and (_cls(a) != "FAIL" or a.get("msg") == b.get("msg"))
                if _cls(a) in ("PASS", "FAIL") and _cls(b) in ("PASS", "FAIL"):
                    st["restart_twins_with_verdict"] = st.get("restart_twins_with_verdict", 0) + 1
                if not same:
                    viol.append({"inv": "J4", "sig": "C16/J4/sentence-started-over-differs-from-fresh-rule",
                                 "step": ref[0], "detail": {"restarted": a, "fresh": b, "obj": obj,
                                                             "twin_of": op.get("twin_of")}})
            continue
        mdl = model.get(obj)
        if mdl is None:
            continue
        is_arch = isinstance(mdl, models.LayerDefModel)
        if op["op"] == "call":
            st["calls"] += 1
            if not is_arch and op["m"] == "based_on":
                ref = (op.get("a") or [{}])[0]
                amdl = model.get(ref.get("$obj")) if isinstance(ref, dict) else None
                if not isinstance(amdl, models.LayerDefModel) or amdl.pending():
                    # a rule based on an unfinished or rejected definition: C16 says
                    # nothing about it (only reachable through plan minimisation)
                    st["skipped"] += 1
                    del model[obj]
                    continue
            # arguments as the caller's lists stood when the call was made (logged by the executor
            # before the call); plain arguments are what the plan says
            args = res.get("argv") if res.get("argv") is not None else (op.get("a") or [])
            for a in op.get("a") or []:
                if isinstance(a, dict) and ("$keep" in a or "$held" in a):
                    passed.setdefault(obj, set()).add(a.get("$keep") or a.get("$held"))
            verdict, reason = mdl.classify(op["m"], args)
            outcome = "rej" if res["r"] == "exc" else "acc"
            kind = "arch" if is_arch else "lrule"
            _bump(st["transitions"], f"{kind}|{mdl.shape()}|{form(op)}|{outcome}")
            ev["model"] = {"verdict": verdict, "reason": reason, "state": mdl.shape()}
            if verdict == MUST_REJECT:
                st["must_reject"] += 1
                if res["r"] == "exc" and not res.get("assertion"):
                    st["rejected_as_required"] += 1
                    if op.get("cont"):
                        # the rejected call supplied nothing: the definition / rule is what it
                        # was, and the caller goes on using it
                        st["continued_after_rejection"] = st.get("continued_after_rejection", 0) + 1
                        continue
                else:
                    after = "/after-rejected-call" if after_reject.get(obj) else ""
                    if passed.get(obj, set()) & mutated:
                        after += "/caller-list-changed-since"
                    viol.append({"inv": "J1", "sig": f"C16/J1/{reason}{after}", "step": ev["i"],
                                 "detail": {"call": [op["m"], args], "obj": obj,
                                            "model_state": mdl.shape(), "got": res,
                                            "want": "configuration error at this call"}})
                del model[obj]  # nothing is specified about the object afterwards
            elif res["r"] == "exc":
                _bump(st["unexpected_rejections"], reason + "/" + res.get("cls", "?"))
                del model[obj]
            else:
                st["accepted_checked"] += 1
                mdl.apply(op["m"], args)
        elif op["op"] == "str" and is_arch:
            st["listing_checks"] += 1
            want = mdl.tokens()
            got = _tokens(res.get("str", ""), vocab) if res["r"] == "ok" else None
            ev["model"] = {"tokens": want}
            if got != want:
                viol.append({"inv": "J2", "sig": "C16/J2/str" + _alias_sfx(passed, mutated, obj), "step": ev["i"],
                             "detail": {"obj": obj, "got": res, "want_tokens": want}})
        elif op["op"] == "mapping" and is_arch:
            if res["r"] != "ok":
                st["mapping_unavailable"] = st.get("mapping_unavailable", 0) + 1
                continue  # not part of what C16 names; only judged where it exists
            st["listing_checks"] += 1
            want = mdl.listing()
            got = [(l, [i[0] for i in res["filters"].get(l, [])]) for l in res["layers"]]
            ev["model"] = {"listing": want}
            if got != [(l, ids) for l, ids in want]:
                viol.append({"inv": "J2", "sig": "C16/J2/layer_mapping" + _alias_sfx(passed, mutated, obj),
                             "step": ev["i"],
                             "detail": {"obj": obj, "got": res, "want": want}})
            elif res.get("rev"):
                # module -> layer as the mapping answers it, for names supplied to exactly one layer
                count = {}
                for l, ids in want:
                    for i in set(ids):
                        count[i] = count.get(i, 0) + 1
                wrong = [[i, l, res["rev"].get(i)] for l, ids in want for i in ids
                         if count[i] == 1 and i in res["rev"] and res["rev"][i] != l]
                if wrong:
                    viol.append({"inv": "J2", "sig": "C16/J2/layer_mapping/layer-of-supplied-module"
                                 + _alias_sfx(passed, mutated, obj), "step": ev["i"],
                                 "detail": {"obj": obj, "wrong": wrong[:4], "want": want}})
        elif op["op"] == "getitem" and is_arch:
            want = dict(mdl.listing()).get(op["k"])
            if want is None:
                continue
            st["listing_checks"] += 1
            regex = any(c is not None and c[0] == "regex" for n, c in mdl.layers if n == op["k"])
            ev["model"] = {"ids": want, "regex": regex}
            ok = res["r"] == "ok" and [i[0] for i in res["items"]] == want and all(
                i[1] == regex for i in res["items"])
            if not ok:
                viol.append({"inv": "J2", "sig": "C16/J2/getitem" + _alias_sfx(passed, mutated, obj), "step": ev["i"],
                             "detail": {"obj": obj, "layer": op["k"], "got": res, "want": want}})
    meta = plan.get("meta") or {}
    sched = [c for c in plan.get("schedule", [])]
    interleaved = sched != sorted(sched)
    st["nontrivial"] = bool(st["must_reject"] or interleaved)
    st["faults"] = {"F9_client_interleave": int(interleaved), "F10_chain_mutation": st["must_reject"],
                    "F14_caller_list_changed_after_call": st.get("caller_list_mutations", 0)}
    st["probes"] = {"client_kinds": {k: 1 for k in meta.get("client_kinds", [])}}
    return {"violations": viol, "stats": st}


def _cls(res):
    r = res.get("r")
    if r in ("PASS", "FAIL"):
        return r
    return "NOVERDICT"


def _spec_shape(spec):
    if not spec:
        return "?"
    if spec["kind"] == "module":
        obj = spec["obj"]["f"] if spec.get("obj") else "anything"
        return f'module:{spec["subj"]["f"]}:{spec["verb"]}:{spec["imp"]}:{obj}'
    if spec["kind"] == "layer":
        n = len(spec["obj"]) if spec.get("obj") else 0
        return f'layer:{spec["verb"]}:{spec["acc"]}:objs{n}'
    return f'diagram:{"should_only" if spec["should_only"] else "should"}:{spec["naming"]}'


def judge_c15(plan, result):
    """I1 (history/reuse/permutation/enumeration independence), I2 (purity), I3 (scan
    determinism). I4/I5 are cross-interpreter comparisons done by the coordinator."""
    viol = []
    meta = plan.get("meta") or {}
    specs = meta.get("specs") or {}
    archs = meta.get("archs") or {}
    iso = result.get("isolated") or {}
    iso_out = iso.get("outcomes") or {}
    iso_scans = iso.get("scans") or {}
    st = {"applies": 0, "verdicts": {"PASS": 0, "FAIL": 0, "NOVERDICT": 0}, "scans": 0,
          "error_text_variations": 0}
    pr = {}
    # isolated pass itself must be pure
    for key, res in iso_out.items():
        if res.get("r") != "skip" and res.get("ev_before") != res.get("ev_after"):
            sid = key.split("|")[0]
            viol.append({"inv": "I2", "sig": f"C15/I2/{_spec_shape(specs.get(sid))}", "step": -1,
                         "detail": {"phase": "isolated", "key": key, "outcome": res}})
    first_scan = {}
    for cid, res in iso_scans.items():
        first_scan[cid] = res
    last_on_ev = {}
    evs_of_obj = {}
    applies_of_obj = {}
    arch_listing = {}
    snap_of_ev = {}
    aborted_scan_cfgs = set()
    faulted_scan_cfgs = set()
    faulted_objs = set()
    cancelled_on_ev = set()
    for ev in result["log"]:
        op, res = ev["op"], ev["res"]
        if op["op"] == "str" and op.get("obj") in archs and res.get("r") == "ok":
            # I2 for the shared layer definition: evaluating layer rules never rewrites it
            ref_str = arch_listing.setdefault(op["obj"], res["str"])
            _bump(pr, "shared_layer_definition_observed")
            if ref_str != res["str"]:
                viol.append({"inv": "I2", "sig": "C15/I2/shared-layer-definition-changed", "step": ev["i"],
                             "detail": {"obj": op["obj"], "first": ref_str, "now": res["str"]}})
            continue
        if op["op"] == "modules" and res.get("r") == "ok":
            want = (result["snaps"].get(snap_of_ev.get(op["ev"])) or {}).get("modules")
            _bump(pr, "modules_property_observed")
            if want is not None and sorted(res["modules"]) != want:
                viol.append({"inv": "I2", "sig": "C15/I2/modules-property-changed", "step": ev["i"],
                             "detail": {"ev": op["ev"], "now": res["modules"], "at_creation": want}})
            continue
        if op["op"] == "drop":
            _bump(pr, "object_dropped")
            continue
        if op["op"] == "scan":
            if res.get("r") == "ABORTED":
                _bump(pr, "scan_cancelled")
                aborted_scan_cfgs.add(op["cfg"])
                continue
            if res.get("r") in ("IOFAULT", "IOFAULT_SWALLOWED"):
                # F15: the disk failed under this request; only what comes after is judged
                _bump(pr, "scan_failed_by_io_error" if res["r"] == "IOFAULT" else "scan_io_error_swallowed")
                faulted_scan_cfgs.add(op["cfg"])
                continue
            if op["cfg"] in aborted_scan_cfgs:
                _bump(pr, "scan_after_cancelled_scan_of_same_request")
            if op["cfg"] in faulted_scan_cfgs:
                _bump(pr, "scan_after_io_error_on_same_request")
            if res.get("r") == "ok" and res.get("cold"):
                # not looked at by the harness at creation: judged through the snapshot taken after
                # its first evaluations, against the reference scan of the same request (I2)
                _bump(pr, "evaluable_first_used_without_being_looked_at")
                continue
            if res.get("r") == "ok":
                snap_of_ev[op["ev"]] = res["snap"]
            st["scans"] += 1
            ref = first_scan.setdefault(op["cfg"], res)
            same = (ref.get("r") == res.get("r")) and (ref.get("snap") == res.get("snap"))
            if op.get("order"):
                _bump(pr, "scan_under_planned_order")
            if not same:
                a = result["snaps"].get(ref.get("snap"), {})
                b = result["snaps"].get(res.get("snap"), {})
                diff = {"modules_only_ref": sorted(set(a.get("modules", [])) - set(b.get("modules", []))),
                        "modules_only_here": sorted(set(b.get("modules", [])) - set(a.get("modules", []))),
                        "edges_only_ref": [e for e in a.get("edges", []) if e not in b.get("edges", [])][:20],
                        "edges_only_here": [e for e in b.get("edges", []) if e not in a.get("edges", [])][:20]}
                what = "outcome" if ref.get("r") != res.get("r") else (
                    "modules" if diff["modules_only_ref"] or diff["modules_only_here"] else "imports")
                viol.append({"inv": "I3", "sig": f"C15/I3/{what}", "step": ev["i"],
                             "detail": {"cfg": op["cfg"], "reference": {k: v for k, v in ref.items() if k != "served"},
                                        "here": {k: v for k, v in res.items() if k != "served"}, "diff": diff}})
            continue
        if op["op"] != "apply":
            continue
        key = op.get("key")
        sid = key.split("|")[0] if key else None
        spec = specs.get(sid)
        got = _cls(res)
        if res.get("r") == "skip" and res.get("why") in ("no-evaluable", "no-object"):
            continue
        cancelled = res.get("r") == "ABORTED"
        io_failed = res.get("r") == "IOFAULT"
        if cancelled:
            _bump(pr, "evaluation_cancelled")
        elif io_failed:
            _bump(pr, "evaluation_failed_by_io_error")
        elif res.get("tainted"):
            _bump(pr, "evaluation_on_cancelled_object_not_judged")
        else:
            st["applies"] += 1
            st["verdicts"][got] += 1
            if op["ev"] in cancelled_on_ev:
                _bump(pr, "evaluation_after_cancelled_evaluation_on_same_evaluable")
        if res.get("r") != "skip" and res.get("ev_before") != res.get("ev_after"):
            tag = "/cancelled" if cancelled else ""
            viol.append({"inv": "I2", "sig": f"C15/I2/{_spec_shape(spec)}{tag}", "step": ev["i"],
                         "detail": {"phase": "session", "op": op, "outcome": res}})
        if cancelled:
            cancelled_on_ev.add(op["ev"])
        if cancelled or res.get("tainted"):
            # nothing is specified about a rule object whose evaluation was cancelled
            continue
        if io_failed:
            # F15: no verdict is expected from an evaluation under which the disk failed (I2 was
            # checked above); the same rule object is judged as usual from its next evaluation on
            faulted_objs.add(op["obj"])
            last_on_ev[op["ev"]] = "NOVERDICT"
            continue
        if op["obj"] in faulted_objs:
            _bump(pr, "evaluation_after_io_error_on_same_rule_object")
        ref = iso_out.get(key)
        if ref is not None:
            want = _cls(ref)
            if want != got:
                viol.append({"inv": "I1", "sig": f"C15/I1/{_spec_shape(spec)}/{want}-vs-{got}",
                             "step": ev["i"],
                             "detail": {"op": op, "spec": spec, "isolated": ref, "in_session": res,
                                        "arch": archs.get((spec or {}).get("arch"))}})
            elif got == "FAIL" and ref.get("msg") != res.get("msg"):
                viol.append({"inv": "I1", "sig": f"C15/I1/{_spec_shape(spec)}/message", "step": ev["i"],
                             "detail": {"op": op, "spec": spec, "isolated": ref, "in_session": res}})
            elif got == "NOVERDICT" and (ref.get("cls"), ref.get("msg")) != (res.get("cls"), res.get("msg")):
                st["error_text_variations"] += 1
        # reach probes
        if got == "FAIL" and res.get("msg", "").count("\n") >= 1:
            _bump(pr, "messages_with_2plus_lines")
        prev = last_on_ev.get(op["ev"])
        if prev == "NOVERDICT":
            _bump(pr, "evaluation_after_error")
        elif prev == "FAIL":
            _bump(pr, "evaluation_after_assertion")
        last_on_ev[op["ev"]] = got
        evs_of_obj.setdefault(op["obj"], set()).add(op["ev"])
        applies_of_obj[op["obj"]] = applies_of_obj.get(op["obj"], 0) + 1
        if spec:
            if got != "NOVERDICT":
                _bump(pr, f'{spec["kind"]}_rule_reached_verdict')
            alias = (spec.get("imp") or spec.get("acc") or "").endswith(("anything", "any_layer"))
            if alias and applies_of_obj[op["obj"]] == 2:
                _bump(pr, "alias_rule_reapplied")
    pr["same_rule_object_on_2plus_evaluables"] = sum(1 for v in evs_of_obj.values() if len(v) > 1)
    pr["rule_object_applied_3plus_times"] = sum(1 for v in applies_of_obj.values() if v > 2)
    pr["listing_served_unsorted"] = result["fs"]["unsorted"]
    pr["unplanned_listings"] = result["fs"]["unplanned"]
    faults = dict(meta.get("faults") or {})
    faults["F1_readdir_order_effective_listings"] = result["fs"]["unsorted"]
    faults["F8_failing_predecessor"] = pr.get("evaluation_after_error", 0) + pr.get(
        "evaluation_after_assertion", 0)
    st["faults"] = faults
    st["probes"] = pr
    any_fault = any(v for k, v in faults.items())
    st["nontrivial"] = bool(any_fault and (st["verdicts"]["PASS"] + st["verdicts"]["FAIL"]) > 0)
    return {"violations": viol, "stats": st}


def _undef_relation(undef, mentioned):
    """How the undefined names relate to the other names of the same specification."""
    names = [v for k, v in mentioned if k in ("are_named", "are_sub_modules_of")]
    rel = set()
    for k, u in undef:
        others = [n for n in names if n != u]
        if k not in ("are_named", "are_sub_modules_of") or not others:
            rel.add("alone" if len(mentioned) == len(undef) else "next-to-defined")
        elif any(u.startswith(n + ".") for n in others):
            rel.add("child-of-listed-name")
        elif any(n in u for n in others):
            rel.add("contains-listed-name")
        else:
            rel.add("alone" if len(mentioned) == len(undef) else "next-to-defined")
    return "+".join(sorted(rel))


def _independent_bounds(plan, cfg):
    """What can be said about an architecture's module names from the plan alone (no use of the
    library): the dotted names that exist on disk below the root package, and the largest number
    of name components its level limit allows."""
    tree = ((plan.get("world") or {}).get("trees") or {}).get(cfg.get("tree"))
    if not tree:
        return None
    on_disk = set()
    for d in tree.get("dirs", []):
        on_disk.add(d.replace("/", "."))
    for f in tree.get("files", {}):
        if f.endswith(".py"):
            on_disk.add(f[:-3].replace("/", "."))
    limit = (cfg.get("kw") or {}).get("level_limit")
    max_comps = None
    if limit is not None:
        extra = 0 if cfg["module"] == cfg["root"] else len(cfg["module"].split("/")) - 1
        max_comps = limit + extra + 1
    # an upper bound of every name the architecture can possibly contain: what is on disk (cut
    # at the level limit) plus every absolute import target with its parents (external modules)
    upper = set()
    for n in on_disk:
        parts = n.split(".")
        upper.add(".".join(parts[:max_comps]) if max_comps else n)
        for i in range(1, len(parts)):
            upper.add(".".join(parts[:i]))
    import ast

    for f, text in tree.get("files", {}).items():
        if not f.endswith(".py"):
            continue
        try:
            mod = ast.parse(text)
        except SyntaxError:
            continue
        for node in ast.walk(mod):
            names = []
            if isinstance(node, ast.Import):
                names = [a.name for a in node.names]
            elif isinstance(node, ast.ImportFrom) and node.level == 0 and node.module:
                names = [node.module] + [f"{node.module}.{a.name}" for a in node.names]
            elif isinstance(node, ast.ImportFrom):
                # relative import: the library derives "parent modules" from the relative name
                # itself, so its dotted prefixes can show up as (external-looking) names
                names = [node.module] if node.module else [a.name for a in node.names]
            for n in names:
                parts = n.split(".")
                for i in range(1, len(parts) + 1):
                    upper.add(".".join(parts[:i]))
    kw = cfg.get("kw") or {}
    exact_excluded = set()
    for pat in kw.get("external_exclusions") or ():
        if "*" not in pat:
            exact_excluded.add(pat)  # the pseudo-regex without '*' names exactly that module
    for pat in kw.get("regex_external_exclusions") or ():
        m = re.fullmatch(r"\^?([A-Za-z_][\w]*(?:\\?\.[A-Za-z_][\w]*)*)\$", pat)
        if m:
            exact_excluded.add(m.group(1).replace("\\.", "."))
    return {"root": cfg["root"], "on_disk": on_disk, "max_comps": max_comps, "upper": upper,
            "externals_included": kw.get("exclude_external_libraries", True) is False,
            "exact_excluded": exact_excluded}


def _surely_undefined(kind, name, bounds):
    if not bounds:
        return None
    if kind == "have_name_matching":
        rx = re.compile(name)
        return None if any(rx.search(m) for m in bounds["upper"]) else "pattern-can-match-nothing"
    if kind == "have_name_containing":
        core = name.strip("*")
        return None if any(core in m for m in bounds["upper"]) else "partial-name-can-match-nothing"
    if kind not in ("are_named", "are_sub_modules_of"):
        return None
    root = bounds["root"]
    if not (name == root or name.startswith(root + ".")):
        # a name outside the root package can only be an external module
        if not bounds["externals_included"]:
            return "external-name-while-externals-excluded"
        parts = name.split(".")
        if any(".".join(parts[:i]) in bounds["exact_excluded"] for i in range(1, len(parts) + 1)):
            return "external-name-excluded-by-pattern"
        if name not in bounds["upper"]:
            return "external-name-never-imported"
        return None
    if name not in bounds["on_disk"]:
        return "not-on-disk"
    if bounds["max_comps"] is not None and len(name.split(".")) > bounds["max_comps"]:
        return "below-level-limit"
    return None


def judge_c13(plan, result):
    """K1: a chain the specification automaton classifies bad / incomplete / contradictory /
    undefined never ends in a verdict (normal return or AssertionError).  The automaton is
    walked along the calls each object actually received; errors are never judged."""
    viol = []
    meta = plan.get("meta") or {}
    pumls = meta.get("pumls") or {}
    st = {"calls": 0, "applies": 0, "judged_must_error": 0, "errored_as_required": 0,
          "classes": {}, "reasons": {}, "outcomes": {"PASS": 0, "FAIL": 0, "NOVERDICT": 0},
          "entry_requests": 0, "entry_must_reject": 0, "transitions": {}, "dead_before_apply": 0,
          "error_classes": {}, "undefined_kinds": {}, "independent_undefined": {}, "interrupted": {}}
    archdefs = {}  # obj -> LayerDefModel of an accepted, finished definition
    arch_layers = {}  # obj -> [(layer, content)] view used by LayerRuleSpec
    spec = {}  # obj -> automaton
    fam = {}
    dead = {}  # obj -> how its chain ended early
    ev_modules = {}
    ev_indep = {}
    ev_cfg = {}
    ref_modules = {}
    for ev in result["log"]:
        op, res = ev["op"], ev["res"]
        kind = op["op"]
        obj = op.get("obj")
        if kind == "scan":
            if res.get("r") in ("ABORTED", "IOFAULT", "IOFAULT_SWALLOWED") or op.get("abort_at"):
                # a request cut short on purpose (F12 / F15) is only a predecessor, never judged
                _bump(st["interrupted"], "scan:" + str(res.get("r")))
                continue
            cfg = plan["cfgs"][op["cfg"]]
            st["entry_requests"] += 1
            below = cfg["module"] == cfg["root"] or cfg["module"].startswith(cfg["root"] + "/")
            reason = models.entry_point_bad(cfg.get("kw", {}), below)
            if res["r"] == "ok":
                ev_modules[op["ev"]] = result["snaps"][res["snap"]]["modules"]
                ev_indep[op["ev"]] = _independent_bounds(plan, cfg)
                ev_cfg[op["ev"]] = op["cfg"]
                if op.get("ref"):
                    # the same request made before any request of the session was cut short
                    ref_modules.setdefault(op["cfg"], set(ev_modules[op["ev"]]))
            if reason:
                st["entry_must_reject"] += 1
                _bump(st["reasons"], "entry:" + reason)
                ev["model"] = {"class": "bad", "reason": reason}
                if res["r"] == "exc" and not res.get("assertion"):
                    st["errored_as_required"] += 1
                    _bump(st["error_classes"], res.get("cls", "?"))
                else:
                    viol.append({"inv": "K1", "sig": f"C13/K1/entry/{reason}", "step": ev["i"],
                                 "detail": {"cfg": cfg, "got": {k: v for k, v in res.items() if k != "served"},
                                            "want": "configuration error, no architecture"}})
            continue
        if kind == "new":
            if res["r"] != "ok":
                continue
            cls = op["cls"]
            if cls == "LayeredArchitecture":
                archdefs[obj] = models.LayerDefModel()
            elif cls == "Rule":
                spec[obj], fam[obj] = models.RuleSpec(), "module"
            elif cls == "LayerRule":
                spec[obj], fam[obj] = models.LayerRuleSpec(arch_layers), "layer"
            elif cls == "DiagramRule":
                spec[obj], fam[obj] = models.DiagramSpec(pumls), "diagram"
            continue
        if kind == "call" and obj in archdefs:
            mdl = archdefs[obj]
            verdict, _ = mdl.classify(op["m"], op.get("a") or [])
            if res["r"] != "ok" or verdict == MUST_REJECT:
                del archdefs[obj]
                arch_layers.pop(obj, None)
            else:
                mdl.apply(op["m"], op.get("a") or [])
                arch_layers[obj] = [(n, c) for n, c in mdl.layers if c is not None]
            continue
        sp = spec.get(obj)
        if sp is None:
            continue
        if kind == "call":
            if res["r"] == "skip":
                continue
            st["calls"] += 1
            a = op.get("a") or []
            args = [x["$obj"] if isinstance(x, dict) and "$obj" in x else
                    x["$puml"] if isinstance(x, dict) and "$puml" in x else x for x in a]
            if fam[obj] == "layer" and op["m"] == "based_on" and args and (
                    args[0] not in arch_layers or args[0] not in archdefs
                    or archdefs[args[0]].pending()):
                del spec[obj]  # based on an unknown, rejected or unfinished definition: unspecified
                continue
            try:
                before = sp.state_key() if hasattr(sp, "state_key") else fam[obj]
                flag = sp.call(op["m"], args)
            except (ValueError, KeyError):
                del spec[obj]
                continue
            _bump(st["transitions"], f"{fam[obj]}|{before}|{form(op)}|{'rej' if res['r'] == 'exc' else 'acc'}")
            if res["r"] == "exc":
                if res.get("assertion"):
                    # a builder call signalling an architectural violation: never legitimate
                    viol.append({"inv": "K1", "sig": f"C13/K1/{fam[obj]}/assertion-from-builder-call",
                                 "step": ev["i"], "detail": {"call": [op["m"], a], "got": res}})
                dead[obj] = "error-at-call"
                _bump(st["error_classes"], res.get("cls", "?"))
                del spec[obj]
            continue
        if kind != "apply":
            continue
        if res["r"] == "skip":
            if obj in dead:
                st["dead_before_apply"] += 1
            continue
        if res["r"] in ("ABORTED", "IOFAULT") or res.get("tainted") or op.get("abort_at"):
            _bump(st["interrupted"], "apply:" + str(res.get("r")))
            del spec[obj]  # nothing is specified about a rule object whose evaluation was cut short
            continue
        st["applies"] += 1
        got = _cls(res)
        st["outcomes"][got] += 1
        klass, reason = sp.classify()
        why = reason
        if klass == models.COMPLETE:
            mods = ev_modules.get(op["ev"])
            if mods is not None:
                undef = models.filters_undefined(sp.mentioned(), mods)
                # names the architecture cannot define whatever its own module list says: not on
                # disk at all, or deeper than the level limit it was built with
                clean = ref_modules.get(ev_cfg.get(op["ev"]))
                if clean is not None:
                    # absent from the architecture the same request built before anything was cut
                    # short: absent, whatever this architecture lists now
                    for k_, v_ in models.filters_undefined(sp.mentioned(), sorted(clean)):
                        _bump(st["independent_undefined"], "absent-from-the-clean-scan-of-the-same-request")
                        if (k_, v_) not in undef:
                            undef.append((k_, v_))
                            _bump(st["independent_undefined"],
                                  "absent-from-the-clean-scan-of-the-same-request/although-listed-by-the-architecture")
                for k_, v_ in sp.mentioned():
                    why_ = _surely_undefined(k_, v_, ev_indep.get(op["ev"]))
                    if why_:
                        _bump(st["independent_undefined"], why_)
                        if (k_, v_) not in undef:
                            undef.append((k_, v_))
                            _bump(st["independent_undefined"], why_ + "/although-listed-by-the-architecture")
                if undef:
                    klass = models.UNDEFINED
                    kinds = sorted({k for k, _ in undef})
                    why = "undefined-" + "+".join(kinds)
                    if getattr(sp, "anything", False) or getattr(sp, "any", False):
                        why += "/alias"
                    why += "/" + _undef_relation(undef, sp.mentioned())
                    _bump(st["undefined_kinds"], why)
        sp.applied() if hasattr(sp, "applied") else None
        _bump(st["classes"], f"{fam[obj]}:{klass}")
        _bump(st["reasons"], f"{fam[obj]}:{why}")
        ev["model"] = {"class": klass, "reason": why}
        if klass in (models.BAD, models.INCOMPLETE, models.CONTRADICTORY, models.UNDEFINED):
            st["judged_must_error"] += 1
            if got == "NOVERDICT":
                st["errored_as_required"] += 1
                _bump(st["error_classes"], res.get("cls", "?"))
            else:
                viol.append({"inv": "K1", "sig": f"C13/K1/{fam[obj]}/{klass}/{why}",
                             "step": ev["i"],
                             "detail": {"obj": obj, "class": klass, "reason": why,
                                        "got": {k: v for k, v in res.items() if not k.startswith("ev_")},
                                        "calls": [[e["op"]["m"], e["op"].get("a")] for e in result["log"]
                                                  if e["op"].get("obj") == obj and e["op"]["op"] == "call"
                                                  and e["i"] < ev["i"]],
                                        "evaluable_modules": ev_modules.get(op["ev"]),
                                        "want": "configuration or lookup error (no verdict)"}})
    sched = list(plan.get("schedule", []))
    interleaved = sched[meta.get("n_setup", 0):] != sorted(sched[meta.get("n_setup", 0):])
    st["nontrivial"] = bool(st["judged_must_error"] or st["entry_must_reject"])
    st["faults"] = {"F9_client_interleave": int(interleaved),
                    "F12_F15_interrupted_predecessor": sum(st["interrupted"].values()),
                    "F10_chain_mutation": st["judged_must_error"] + st["dead_before_apply"],
                    "F1_readdir_order_effective_listings": result["fs"]["unsorted"]}
    st["probes"] = {"chain_kinds": dict(meta.get("chain_kinds") or {})}
    return {"violations": viol, "stats": st}


JUDGES = {"C16": judge_c16, "C15": judge_c15, "C13": judge_c13}


def judge(plan, result):
    return JUDGES[plan["prop"]](plan, result)
