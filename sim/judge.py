"""Invariant checks over (plan, execution result). Pure functions; run inside the worker.

Each judge returns {"violations": [...], "stats": {...}}.  A violation is
{"inv": name, "sig": signature string, "step": event index, "detail": {...}}.
"""
import re

from . import models
from .models import MUST_REJECT


def _tokens(text, vocab):
    rx = re.compile("|".join(re.escape(t) for t in sorted(vocab, key=lambda t: (-len(t), t))))
    return rx.findall(text)


def _bump(d, k, n=1):
    d[k] = d.get(k, 0) + n


def form(op):
    """Argument form of a call (for coverage keys and schedule signatures)."""
    m = op.get("m") or op.get("op")
    a = op.get("a") or []
    if not a:
        return m
    if isinstance(a[0], list):
        return f"{m}(list{len(a[0])})"
    if isinstance(a[0], dict):
        return f"{m}(obj)"
    return f"{m}(str)"


# ------------------------------------------------------------------------------------
def judge_c16(plan, result):
    """J1/J2/J3. The judge walks its own reference model along the calls each object
    actually received (so a minimised plan is judged for what it is)."""
    viol = []
    st = {"calls": 0, "must_reject": 0, "rejected_as_required": 0, "accepted_checked": 0,
          "unexpected_rejections": {}, "transitions": {}, "listing_checks": 0, "skipped": 0}
    vocab = plan.get("vocab", [])
    model = {}  # obj -> model instance; removed once the object left the specified domain
    for ev in result["log"]:
        op, res = ev["op"], ev["res"]
        obj = op.get("obj")
        if op["op"] == "new":
            if res["r"] == "ok":
                model[obj] = (models.LayerDefModel() if op["cls"] == "LayeredArchitecture"
                              else models.LayerRuleModel())
            continue
        if res["r"] == "skip":
            st["skipped"] += 1
            continue
        mdl = model.get(obj)
        if mdl is None:
            continue
        is_arch = isinstance(mdl, models.LayerDefModel)
        if op["op"] == "call":
            st["calls"] += 1
            verdict, reason = mdl.classify(op["m"], op.get("a") or [])
            outcome = "rej" if res["r"] == "exc" else "acc"
            kind = "arch" if is_arch else "lrule"
            _bump(st["transitions"], f"{kind}|{mdl.shape()}|{form(op)}|{outcome}")
            ev["model"] = {"verdict": verdict, "reason": reason, "state": mdl.shape()}
            if verdict == MUST_REJECT:
                st["must_reject"] += 1
                if res["r"] == "exc" and not res.get("assertion"):
                    st["rejected_as_required"] += 1
                else:
                    viol.append({"inv": "J1", "sig": f"C16/J1/{reason}", "step": ev["i"],
                                 "detail": {"call": [op["m"], op.get("a")], "obj": obj,
                                            "model_state": mdl.shape(), "got": res,
                                            "want": "configuration error at this call"}})
                del model[obj]  # nothing is specified about the object afterwards
            elif res["r"] == "exc":
                _bump(st["unexpected_rejections"], reason + "/" + res.get("cls", "?"))
                del model[obj]
            else:
                st["accepted_checked"] += 1
                mdl.apply(op["m"], op.get("a") or [])
        elif op["op"] == "str" and is_arch:
            st["listing_checks"] += 1
            want = mdl.tokens()
            got = _tokens(res.get("str", ""), vocab) if res["r"] == "ok" else None
            ev["model"] = {"tokens": want}
            if got != want:
                viol.append({"inv": "J2", "sig": "C16/J2/str", "step": ev["i"],
                             "detail": {"obj": obj, "got": res, "want_tokens": want}})
        elif op["op"] == "getitem" and is_arch:
            want = dict(mdl.listing()).get(op["k"])
            if want is None:
                continue
            st["listing_checks"] += 1
            regex = any(c is not None and c[0] == "regex" for n, c in mdl.layers if n == op["k"])
            ev["model"] = {"ids": want, "regex": regex}
            ok = res["r"] == "ok" and [i[0] for i in res["items"]] == want and all(
                i[1] == regex for i in res["items"])
            if not ok:
                viol.append({"inv": "J2", "sig": "C16/J2/getitem", "step": ev["i"],
                             "detail": {"obj": obj, "layer": op["k"], "got": res, "want": want}})
    meta = plan.get("meta") or {}
    sched = [c for c in plan.get("schedule", [])]
    interleaved = sched != sorted(sched)
    st["nontrivial"] = bool(st["must_reject"] or interleaved)
    st["faults"] = {"F9_client_interleave": int(interleaved), "F10_chain_mutation": st["must_reject"]}
    st["probes"] = {"client_kinds": {k: 1 for k in meta.get("client_kinds", [])}}
    return {"violations": viol, "stats": st}


JUDGES = {"C16": judge_c16}


def judge(plan, result):
    return JUDGES[plan["prop"]](plan, result)
