"""Seeded world generation: project trees, scan configurations, layer definitions, diagrams.

No import of the code under test; module names are predicted by path arithmetic only (the
prediction steers the workload, it is never used as an oracle).
"""

NAMES = ["alpha", "alphab", "beta", "betax", "core", "corex", "gam", "gamma", "util", "utils",
         "zed", "kay", "omega", "pix"]
ROOTS = ["proj", "app", "srcx"]
EXTERNALS = ["os", "os.path", "sys", "json", "collections.abc", "numpy", "numpy.linalg",
             "typing", "urllib.parse", "logging.handlers",
             # names that merely start with another external's name
             "typing_extensions", "jsonschema", "numpy_financial", "osx.path", "systemd"]


def pick(rng, seq):
    return seq[rng.randrange(len(seq))]


class Tree:
    def __init__(self, name, root):
        self.name = name
        self.root = root
        self.dirs = [root]  # relative paths, '/'-separated, first is the root package dir
        self.pkg_depth = {root: 0}
        self.files = {}  # relpath -> content
        self.pyfiles = []  # relpaths of python files
        self.short_pkg = None  # a package whose files import each other by its short name (src layout)
        self.fav_externals = []
        self.links = {}  # relpath of a symbolic link -> relpath (inside the tree) it points to

    def children(self, d):
        pre = d + "/"
        names = set()
        for x in self.links:
            if x.startswith(pre) and "/" not in x[len(pre):]:
                names.add(x[len(pre):])
        for x in self.dirs:
            if x.startswith(pre) and "/" not in x[len(pre):]:
                names.add(x[len(pre):])
        for f in self.files:
            if f.startswith(pre) and "/" not in f[len(pre):]:
                names.add(f[len(pre):])
        return sorted(names)

    def dotted(self, rel):
        if rel.endswith(".py"):
            rel = rel[:-3]
        return rel.replace("/", ".")

    def all_modules(self):
        """Predicted module names of a full scan from the root (dirs and python files)."""
        out = [self.dotted(d) for d in self.dirs if "__pycache__" not in d]
        out += [self.dotted(f) for f in self.pyfiles]
        out += [self.dotted(k) for k in self.links]
        return sorted(set(out))

    def spec(self):
        out = {"root": self.root, "dirs": sorted(self.dirs), "files": dict(self.files)}
        if self.links:
            out["links"] = dict(self.links)
        return out


def gen_tree(rng, tname, exotic=0.0, pkg_bias=0.0, p_links=0.0):
    tree = Tree(tname, pick(rng, ROOTS))
    target = rng.randint(3, 26)
    max_depth = rng.randint(1, 4)
    count = 0
    guard = 0
    while count < target and guard < 400:
        guard += 1
        # shallow packages are more likely to grow
        cands = sorted(tree.pkg_depth)
        parent = pick(rng, cands)
        depth = tree.pkg_depth[parent]
        name = pick(rng, NAMES)
        existing = tree.children(parent)
        as_pkg = depth < max_depth and rng.random() < 0.3
        if as_pkg:
            clash = name in existing or (name + ".py") in existing
            if clash and not (rng.random() < exotic and name not in existing):
                continue
            d = f"{parent}/{name}"
            tree.dirs.append(d)
            tree.pkg_depth[d] = depth + 1
            count += 1
        else:
            clash = (name + ".py") in existing or name in existing
            if clash and not (rng.random() < exotic and (name + ".py") not in existing):
                continue
            f = f"{parent}/{name}.py"
            tree.files[f] = ""
            tree.pyfiles.append(f)
            count += 1
    if rng.random() < 0.25:
        # file and directory names as people leave them behind ("core-old.py", "util copy/"): they
        # cannot be imported, but a scan lists them under exactly that name; often the plain name
        # they continue does not exist next to them
        for _ in range(rng.randint(1, 3)):
            parent = pick(rng, sorted(tree.pkg_depth))
            base = pick(rng, NAMES)
            name = base + pick(rng, ["-", " ", "-", "~"]) + pick(rng, ["old", "v2", "copy"])
            existing = tree.children(parent)
            if name in existing or (name + ".py") in existing:
                continue
            if tree.pkg_depth[parent] < max_depth and rng.random() < 0.3:
                d = f"{parent}/{name}"
                tree.dirs.append(d)
                tree.pkg_depth[d] = tree.pkg_depth[parent] + 1
                tree.files[f"{d}/{pick(rng, NAMES)}.py"] = ""
                tree.pyfiles.append(sorted(k for k in tree.files if k.startswith(d + "/"))[0])
            else:
                tree.files[f"{parent}/{name}.py"] = ""
                tree.pyfiles.append(f"{parent}/{name}.py")
    for d in sorted(tree.pkg_depth):
        if rng.random() < 0.75:
            f = f"{d}/__init__.py"
            tree.files[f] = ""
            tree.pyfiles.append(f)
    # clutter that a scan must ignore
    for d in sorted(tree.pkg_depth):
        r = rng.random()
        if r < 0.12:
            tree.files[f"{d}/README.txt"] = "not python\n"
        elif r < 0.2:
            tree.files[f"{d}/data.json"] = "{}\n"
        elif r < 0.32:
            tree.dirs.append(f"{d}/__pycache__")
            tree.files[f"{d}/__pycache__/stale.cpython-312.pyc"] = "binary-ish\n"
            if rng.random() < 0.5:
                tree.files[f"{d}/__pycache__/leftover.py"] = "import os\n"
        elif r < 0.38:
            tree.dirs.append(f"{d}/emptydir")
    if rng.random() < 0.2:
        # names that differ only in case (legal on a case-sensitive file system)
        plain = [f for f in tree.pyfiles if not f.endswith("__init__.py") and "__pycache__" not in f]
        rng.shuffle(plain)
        for f in plain[: rng.randint(1, 3)]:
            d, base = f.rsplit("/", 1)
            twin = f"{d}/{base[0].upper()}{base[1:]}"
            if twin not in tree.files and twin[:-3] not in tree.dirs:
                tree.files[twin] = ""
                tree.pyfiles.append(twin)
    if rng.random() < p_links:
        # a module or a package that is also reachable under a second name (symbolic link);
        # never a link to one of its own ancestors (the walk would not end)
        plain = [f for f in tree.pyfiles if not f.endswith("__init__.py") and "__pycache__" not in f]
        pkgs = sorted(d for d in tree.pkg_depth if d != tree.root)
        for _ in range(rng.randint(1, 2)):
            parent = pick(rng, sorted(tree.pkg_depth))
            name = pick(rng, NAMES)
            existing = tree.children(parent)
            if name in existing or (name + ".py") in existing:
                continue
            if plain and (not pkgs or rng.random() < 0.5):
                tree.links[f"{parent}/{name}.py"] = pick(rng, plain)
            else:
                ok = [q for q in pkgs if not (parent + "/").startswith(q + "/") and parent != q]
                if ok:
                    tree.links[f"{parent}/{name}"] = pick(rng, ok)
    sub = sorted(d for d in tree.pkg_depth if d != tree.root)
    if sub and rng.random() < 0.35:
        tree.short_pkg = pick(rng, sub)
    tree.pyfiles.sort()
    _gen_imports(rng, tree, pkg_bias)
    return tree


def variant_tree(rng, tree, tname):
    """A sibling checkout of the same project: same root package and mostly the same modules, a
    few files gone, a few new ones.  The same rule objects are meaningful on both, patterns match
    different module sets."""
    t = Tree(tname, tree.root)
    t.dirs = list(tree.dirs)
    t.pkg_depth = dict(tree.pkg_depth)
    t.files = dict(tree.files)
    t.pyfiles = list(tree.pyfiles)
    t.short_pkg = tree.short_pkg
    t.fav_externals = list(tree.fav_externals)
    t.links = {k: v for k, v in tree.links.items()}
    plain = [f for f in t.pyfiles if not f.endswith("__init__.py") and "__pycache__" not in f]
    rng.shuffle(plain)
    for f in plain[: rng.randint(1, max(1, len(plain) // 3))]:
        del t.files[f]
        t.pyfiles.remove(f)
    mods = [m for m in tree.all_modules() if "__pycache__" not in m and not m.endswith("__init__")]
    for _ in range(rng.randint(1, 4)):
        parent = pick(rng, sorted(t.pkg_depth))
        name = pick(rng, NAMES)
        existing = t.children(parent)
        if name in existing or (name + ".py") in existing:
            continue
        f = f"{parent}/{name}.py"
        lines = []
        for _ in range(rng.randint(0, 2)):
            tgt = pick(rng, mods)
            lines.append(_wrap(rng, f"import {tgt}" if rng.random() < 0.5 else f"from {tgt} import thing"))
        t.files[f] = "\n".join(lines) + ("\n" if lines else "")
        t.pyfiles.append(f)
    t.links = {k: v for k, v in t.links.items() if v in t.files or v in t.dirs}
    t.pyfiles.sort()
    return t


def _wrap(rng, stmt):
    r = rng.random()
    if r < 0.68:
        return stmt
    if r < 0.78:
        return f"def fn_{rng.randrange(100)}():\n    {stmt}\n    return None"
    if r < 0.84:
        return f"class K{rng.randrange(100)}:\n    {stmt}"
    if r < 0.90:
        return f"if True:\n    {stmt}"
    if r < 0.95:
        return f"try:\n    {stmt}\nexcept ImportError:\n    pass"
    return f"def outer_{rng.randrange(100)}():\n    def inner():\n        {stmt}\n    return inner"


def _gen_imports(rng, tree, pkg_bias=0.0):
    def importable(m):  # "core-old" can be scanned, not imported
        return all(p.isidentifier() for p in m.split("."))

    mods = [m for m in tree.all_modules() if "__pycache__" not in m and not m.endswith("__init__")
            and importable(m)]
    file_mods = [tree.dotted(f) for f in tree.pyfiles
                 if "__pycache__" not in f and not f.endswith("__init__.py") and importable(tree.dotted(f))]
    density = rng.choice([0.5, 1.0, 1.5, 2.5])
    ext_rate = rng.choice([0.0, 0.15, 0.3, 0.4])
    fav = rng.sample(EXTERNALS, rng.randint(2, 4))  # a project leans on a few libraries, again and again
    tree.fav_externals = fav
    for f in tree.pyfiles:
        if "__pycache__" in f:
            continue
        me = tree.dotted(f)
        pkg_parts = me.split(".")[:-1]  # importer hierarchy
        lines = []
        n = int(rng.random() * density * 2 + 0.5)
        for _ in range(n):
            if rng.random() < ext_rate:
                ext = pick(rng, fav if rng.random() < 0.7 else EXTERNALS)
                r = rng.random()
                if r < 0.5:
                    stmt = f"import {ext}"
                elif r < 0.7 and "." in ext:
                    a, b = ext.rsplit(".", 1)
                    stmt = f"from {a} import {b}"
                else:
                    stmt = f"from {ext} import something"
                lines.append(_wrap(rng, stmt))
                continue
            cands = [m for m in mods if m != me]
            if not cands:
                break
            pkgs = [m for m in cands if m not in file_mods and "." in m]
            if pkgs and rng.random() < pkg_bias:
                tgt = pick(rng, pkgs)  # the package node itself is what gets imported
            else:
                tgt = pick(rng, cands if rng.random() < 0.4 else ([m for m in file_mods if m != me] or cands))
            tparts = tgt.split(".")
            r = rng.random()
            # relative forms are possible when the target lies below an ancestor package
            common = 0
            while common < min(len(pkg_parts), len(tparts) - 1) and pkg_parts[common] == tparts[common]:
                common += 1
            if r < 0.3 and common >= 1:
                level = len(pkg_parts) - common + 1
                rest = tparts[common:]
                dots = "." * level
                if len(rest) == 1 and rng.random() < 0.6:
                    stmt = f"from {dots} import {rest[0]}"
                elif rng.random() < 0.5 and len(rest) >= 2:
                    stmt = f"from {dots}{'.'.join(rest[:-1])} import {rest[-1]}"
                else:
                    stmt = f"from {dots}{'.'.join(rest)} import thing"
            elif r < 0.34 and len(tparts) >= 2:
                stmt = f"from {'.'.join(tparts[:-1])} import *"
            elif r < 0.38 and len(tparts) >= 2:
                other = pick(rng, cands).split(".")[-1]
                stmt = f"from {'.'.join(tparts[:-1])} import {tparts[-1]}, {other} as oth"
            elif r < 0.5:
                stmt = f"import {tgt}"
            elif r < 0.6:
                stmt = f"import {tgt} as al{rng.randrange(10)}"
            elif r < 0.78 and len(tparts) >= 2:
                stmt = f"from {'.'.join(tparts[:-1])} import {tparts[-1]}"
            elif r < 0.92:
                stmt = f"from {tgt} import thing"
            else:
                other = pick(rng, cands)
                stmt = f"import {tgt}, {other}"
            sp = tree.short_pkg
            if sp and f.startswith(sp + "/") and rng.random() < 0.6:
                # src layout: below the package that is handed to the scan as module_path,
                # files name their own package by its short name
                strip = tree.dotted(sp.rsplit("/", 1)[0]) + "."
                short = tree.dotted(sp).rsplit(".", 1)[-1]
                if stmt.startswith(("import " + strip, "from " + strip)) and tgt.startswith(tree.dotted(sp)):
                    stmt = stmt.replace(" " + strip, " ")
                elif rng.random() < 0.25:
                    stmt = f"import {short}.{pick(rng, ['_version', 'generated', 'nosuchmod'])}"
            lines.append(_wrap(rng, stmt))
        if rng.random() < 0.3:
            lines.append("VALUE = 1")
        tree.files[f] = "\n".join(lines) + ("\n" if lines else "")


# ------------------------------------------------------------------------------------
# scan configurations
# ------------------------------------------------------------------------------------
def _excluded(rel, patterns):
    """Approximate effect of the generated exclusion patterns on a path relative to the tree."""
    for kind, val in patterns:
        if kind == "contains" and val in rel:
            return True
        if kind == "suffix" and rel.endswith(val):
            return True
        if kind == "prefix" and rel.startswith(val):
            return True
        if kind == "twice" and rel.endswith(".py") and rel.count(val) >= 2:
            return True
    return False


def gen_cfg(rng, tree, plain=False, ext_bias=False):
    """Returns (cfg dict for the plan, predicted module list)."""
    sub = [d for d in tree.pkg_depth if d != tree.root]
    module = tree.root
    if sub and rng.random() < 0.3 and not plain:
        module = pick(rng, sorted(sub))
        if tree.short_pkg and rng.random() < 0.6:
            module = tree.short_pkg
    kw = {}
    patterns = []
    names_in_tree = sorted({p for d in tree.dirs for p in d.split("/")[1:]} |
                           {f.rsplit("/", 1)[1][:-3] for f in tree.pyfiles})
    names_in_tree = [n for n in names_in_tree if n not in ("__init__", "__pycache__")]
    r = rng.random()
    if plain or not names_in_tree:
        pass
    elif r < 0.3:
        ex = ["*__pycache__*"] if rng.random() < 0.7 else []
        for _ in range(rng.randint(1, 3)):
            n = pick(rng, names_in_tree)
            form = rng.random()
            if form < 0.5:
                ex.append(f"*{n}*")
                patterns.append(("contains", n))
            elif form < 0.8:
                ex.append(f"*{n}.py")
                patterns.append(("suffix", n + ".py"))
            else:
                ex.append(f"$ROOT/{tree.name}/{tree.root}/{n}*")
                patterns.append(("prefix", f"{tree.root}/{n}"))
        kw["exclusions"] = sorted(set(ex))
    elif r < 0.45:
        ex = [".*__pycache__.*"] if rng.random() < 0.7 else []
        for _ in range(rng.randint(1, 3)):
            n = pick(rng, names_in_tree)
            if rng.random() < 0.6:
                ex.append(f".*{n}.*")
                patterns.append(("contains", n))
            else:
                ex.append(f".*/{n}\\.py$")
                patterns.append(("suffix", "/" + n + ".py"))
        if rng.random() < 0.4:
            # patterns that are only independent of each other as long as each is compiled on its own:
            # a capturing group, a numbered back-reference (a path naming the same stem twice, as in
            # core/corex.py), an inline flag
            stems = [n for n in ("alpha", "beta", "core", "gam", "util") if n in names_in_tree]
            if stems:
                st = pick(rng, stems)
                ex.append(f".*({st}).*\\1.*\\.py$")
                patterns.append(("twice", st))
            n = pick(rng, names_in_tree)
            ex.append(f".*/({n}|nosuch)\\.py$")
            patterns.append(("suffix", "/" + n + ".py"))
            if rng.random() < 0.5 and n.isidentifier():
                ex.append(f"(?i).*/{n.upper()}/.*")
                patterns.append(("contains", "/" + n + "/"))
        kw["exclusions"] = []
        kw["regex_exclusions"] = sorted(set(ex))
    if "exclusions" not in kw or "*__pycache__*" in kw.get("exclusions", []) or \
            ".*__pycache__.*" in kw.get("regex_exclusions", []):
        patterns.append(("contains", "__pycache__"))
    if not plain:
        r = rng.random()
        if r < 0.35:
            kw["level_limit"] = rng.choice([1, 1, 2, 2, 3])
        r = rng.random()
        if r < (0.5 if ext_bias else 0.3):
            kw["exclude_external_libraries"] = False
            r2 = rng.random() * (0.6 if ext_bias else 1.0)
            if names_in_tree and rng.random() < 0.2:
                # a pattern meant for libraries that also matches modules of the project itself (the
                # library applies external exclusions to every module name)
                hit = rng.sample(names_in_tree, min(len(names_in_tree), rng.randint(1, 2)))
                pats = [f"*{n}*" for n in hit] + (["json"] if rng.random() < 0.5 else [])
                if rng.random() < 0.6:
                    kw["external_exclusions"] = sorted(set(pats))
                else:
                    kw["regex_external_exclusions"] = sorted({f".*{n}.*" for n in hit})
            elif ext_bias and tree.fav_externals and rng.random() < 0.5:
                # exclude exactly the top-level package of a library the project really imports
                tops = sorted({e.split(".")[0] for e in tree.fav_externals})
                chosen = rng.sample(tops, min(len(tops), rng.randint(1, 2)))
                if rng.random() < 0.5:
                    kw["external_exclusions"] = sorted(chosen)
                else:
                    kw["regex_external_exclusions"] = sorted(c + "$" for c in chosen)
            elif r2 < 0.3:
                kw["external_exclusions"] = sorted(rng.sample(["os*", "numpy", "*parse", "typing", "json", "os", "sys"], rng.randint(2, 3)))
            elif r2 < 0.6:
                kw["regex_external_exclusions"] = sorted(rng.sample(["os.*", "numpy$", ".*abc", "typing$", "json$", "os$"], rng.randint(2, 3)))
    cfg = {"tree": tree.name, "root": tree.root, "module": module,
           "via": "modobj" if (rng.random() < 0.15 and not plain) else "path", "kw": kw}
    return cfg, predict_modules(tree, cfg, patterns)


def predict_modules(tree, cfg, patterns):
    module = cfg["module"]
    out = set()
    skip_dirs = []
    for d in sorted(tree.dirs):
        if not (d == module or d.startswith(module + "/")):
            continue
        if any(d == s or d.startswith(s + "/") for s in skip_dirs):
            continue
        if _excluded(d, patterns):
            skip_dirs.append(d)
            continue
        out.add(tree.dotted(d))
    for f in tree.pyfiles:
        if not f.startswith(module + "/"):
            continue
        if any(f.startswith(s + "/") for s in skip_dirs) or _excluded(f, patterns):
            continue
        out.add(tree.dotted(f))
    limit = cfg["kw"].get("level_limit")
    if limit is not None:
        extra = 0 if module == tree.root else len(module.split("/")) - 1
        eff = limit + extra
        out = {".".join(m.split(".")[: eff + 1]) for m in out}
        # parents are nodes too
    closed = set(out)
    for m in out:
        parts = m.split(".")
        for i in range(1, len(parts)):
            closed.add(".".join(parts[:i]))
    return sorted(closed)


# ------------------------------------------------------------------------------------
# layered architectures and diagrams
# ------------------------------------------------------------------------------------
def unrelated(a, b):
    return not (a == b or a.startswith(b + ".") or b.startswith(a + "."))


def gen_arch(rng, modules, all_named, universe=(), p_regex=0.35):
    """[(layer, ("mods",[..]) | ("regex", r))] over pairwise unrelated modules / disjoint regexes."""
    pool = [m for m in modules if "." in m and not m.endswith("__init__")]
    rng.shuffle(pool)
    chosen = []
    for m in pool:
        if all(unrelated(m, c) for c in chosen):
            chosen.append(m)
        if len(chosen) >= 8:
            break
    nlayers = rng.randint(2, 4)
    layers = []
    r = rng.random()
    names = (["LA", "LB", "LC", "LD"] if r < 0.7 else ["LA", "La", "LB", "Lb"] if r < 0.88
             else ["A", "B", "C", "D"])  # one-letter names: "AB" is not a layer, its letters are
    i = 0
    for li in range(nlayers):
        if i >= len(chosen):
            break
        if not all_named and rng.random() < p_regex and rng.random() < 0.4 and len(chosen) - i >= 2:
            # one pattern for a group of unrelated modules: what it matches differs between scan
            # configurations in more than depth (an excluded member simply drops out)
            k = rng.randint(2, min(3, len(chosen) - i))
            group = chosen[i:i + k]
            i += k
            tail = rng.choice(["$", "(\\..*)?$"])
            rx = "^(" + "|".join(g.replace(".", "\\.") for g in group) + ")" + tail
            layers.append((names[li], ("regex", rx)))
        elif not all_named and rng.random() < p_regex:
            m = chosen[i]
            i += 1
            tail = rng.choice(["$", "(\\..*)?$", ".*"])
            if any(o.startswith(m + ".") for o in modules) and rng.random() < 0.4:
                tail = "\\.\\w+$"  # the direct children of a package, whatever they are called
            if tail == ".*" and any(o.startswith(m) and not (o == m or o.startswith(m + "."))
                                    for o in universe):
                # the open form would also match a sibling whose name merely starts with m
                # (overlapping layers are outside the documented domain)
                tail = "(\\..*)?$"
            rx = "^" + m.replace(".", "\\.") + tail
            layers.append((names[li], ("regex", rx)))
        else:
            k = rng.randint(1, min(3, len(chosen) - i))
            layers.append((names[li], ("mods", chosen[i:i + k])))
            i += k
    return layers


def gen_puml(rng, tree, modules, p_ghost=0.2, p_alias=0.35):
    """Diagram over the children of one package. Returns (text, base module, components, tags)."""
    pkgs = sorted({m.rsplit(".", 1)[0] for m in modules if "." in m})
    if not pkgs:
        return None
    base = pick(rng, pkgs)
    # the documented diagram syntax writes component names with word characters only: "core-old" can
    # be a module, it cannot be a component
    kids = sorted({m[len(base) + 1:] for m in modules
                   if m.startswith(base + ".") and "." not in m[len(base) + 1:]
                   and not m.endswith("__init__") and m[len(base) + 1:].isidentifier()})
    if rng.random() < p_ghost:
        kids.append(pick(rng, ["ghost", "phantom"]))  # component that is not a module
    if len(kids) < 2:
        return None
    rng.shuffle(kids)
    comps = kids[: rng.randint(2, min(5, len(kids)))]
    lines = []
    style = rng.random()
    declared = []
    alias = {}  # component name -> alias usable in arrows
    use_alias = rng.random() < p_alias
    for c in comps:
        r = rng.random()
        if use_alias and r < 0.5:
            alias[c] = "AL" + c
            lines.append(f"[{c}] as {alias[c]}" if rng.random() < 0.6 else f"component [{c}] as {alias[c]}")
            declared.append(c)
        elif r < 0.3:
            lines.append(f"[{c}]")
            declared.append(c)
        elif r < 0.5:
            lines.append(f"component {c}")
            declared.append(c)
        elif r < 0.6:
            lines.append(f"component [{c}]")
            declared.append(c)
    arrows = []
    pairs = [(a, b) for a in comps for b in comps if a != b]
    rng.shuffle(pairs)
    mentioned = set(declared)

    def ref(c):
        # an aliased component is referred to by its alias (bare) or by its name
        if c in alias and rng.random() < 0.6:
            return alias[c]
        return f"[{c}]" if style < 0.5 else c

    for a, b in pairs[: rng.randint(1, max(1, len(pairs) // 2))]:
        r = rng.random()
        la, lb = ref(a), ref(b)
        mentioned.update((a, b))
        if r < 0.4:
            arrows.append(f"{la} --> {lb}")
        elif r < 0.6:
            arrows.append(f"{la} -> {lb}")
        elif r < 0.75:
            arrows.append(f"{lb} <-- {la}")
        elif r < 0.85:
            arrows.append(f"{lb} <- {la}")
        else:
            arrows.append(f"{la} -down-> {lb}")
    if alias and rng.random() < 0.6:
        # the usual way aliases are used: the same component once by name, once by alias
        a = pick(rng, sorted(alias))
        targets = [c for c in comps if c != a]
        rng.shuffle(targets)
        targets.sort(key=lambda c: c not in ("ghost", "phantom"))  # a non-module, if any, first
        forms = [0, 1]
        rng.shuffle(forms)
        for k, t in zip(forms, targets[:2]):
            la = (f"[{a}]" if style < 0.5 else a) if k == 0 else alias[a]
            lt = f"[{t}]" if style < 0.5 else t
            r = rng.random()
            line = (f"{la} --> {lt}" if r < 0.4 else f"{la} -> {lt}" if r < 0.5 else
                    f"{lt} <-- {la}" if r < 0.8 else f"{lt} <- {la}" if r < 0.9 else f"{la} -up-> {lt}")
            arrows.insert(rng.randrange(len(arrows) + 1), line)
            mentioned.update((a, t))
    text = "@startuml\n\n" + "\n".join(lines) + "\n\n" + "\n".join(arrows) + "\n\n@enduml\n"
    used = sorted(mentioned)
    return {"text": text, "base": base, "components": used, "tags": True}
