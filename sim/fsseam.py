"""Simulated disk: real files on tmpfs + a seam that owns directory enumeration order.

The only thing a real file system does not let the simulator choose is the order in
which readdir returns entries.  `install()` wraps os.listdir and os.scandir (Path.iterdir
uses os.listdir in 3.12; os.walk/glob use os.scandir).  While a scan is active
(`begin_scan`), listings of directories below the scratch root are served in the order
the plan prescribes; everything else passes through untouched.
"""
import builtins
import errno
import io
import os
import shutil

_real_listdir = os.listdir
_real_scandir = os.scandir
_real_open = builtins.open

# F15: one injected I/O error per armed call: the k-th directory listing or the k-th file opened for
# reading below the scratch root fails with OSError (EIO / EACCES / EMFILE)
_fault = {"kind": None, "at": 0, "count": 0, "fired": 0, "errno": errno.EIO}


def arm_fault(kind, at, err="EIO"):
    _fault.update(kind=kind, at=int(at), count=0, fired=0, errno=getattr(errno, err, errno.EIO))


def disarm_fault():
    """-> (fired, how many candidate operations were seen)"""
    fired, count = _fault["fired"], _fault["count"]
    _fault.update(kind=None, count=0, fired=0)
    return fired, count


def _maybe_fault(kind, path):
    if _fault["kind"] != kind or _state["root"] is None:
        return
    try:
        key = os.fspath(path)
    except TypeError:
        return
    if isinstance(key, bytes):
        return
    key = os.path.abspath(key)
    root = _state["root"]
    if not (key == root or key.startswith(root + os.sep)):
        return
    _fault["count"] += 1
    if _fault["count"] == _fault["at"]:
        _fault["fired"] = 1
        raise OSError(_fault["errno"], os.strerror(_fault["errno"]), key)


def _open(file, mode="r", *args, **kwargs):
    if _fault["kind"] == "open" and isinstance(mode, str) and not set(mode) & set("wax+"):
        _maybe_fault("open", file)
    return _real_open(file, mode, *args, **kwargs)

_state = {
    "root": None,  # absolute scratch root of the current run (str) or None
    "order": None,  # {absolute dir: [names]} for the active scan or None
    "explicit": False,  # the plan prescribes an order for every directory of this scan
    "served": [],  # [(reldir, [names served])] for the active scan
    "unplanned": 0,
    "unsorted": 0,
    "listings": 0,
}


def _plan_order(path, names):
    """Return `names` re-ordered as the plan prescribes for `path` (or None if unowned)."""
    order = _state["order"]
    root = _state["root"]
    if order is None or root is None:
        return None
    try:
        key = os.fspath(path)
    except TypeError:
        return None
    if isinstance(key, bytes):
        return None
    key = os.path.abspath(key)
    if not (key == root or key.startswith(root + os.sep)):
        return None
    _state["listings"] += 1
    want = order.get(key)
    if want is None:
        want = order.get(os.path.realpath(key))  # a directory reached through a symbolic link
    present = sorted(names)
    if want is None:
        if _state["explicit"]:
            _state["unplanned"] += 1
        out = present
    else:
        have = set(present)
        out = [n for n in want if n in have]
        seen = set(out)
        out.extend(n for n in present if n not in seen)
    if out != present:
        _state["unsorted"] += 1
    _state["served"].append((os.path.relpath(key, root), list(out)))
    return out


def _listdir(path="."):
    _maybe_fault("listdir", path)
    names = _real_listdir(path)
    out = _plan_order(path, names)
    return names if out is None else out


class _OrderedScandir:
    def __init__(self, entries):
        self._it = iter(entries)

    def __iter__(self):
        return self

    def __next__(self):
        return next(self._it)

    def __enter__(self):
        return self

    def __exit__(self, *exc):
        self.close()
        return False

    def close(self):
        self._it = iter(())


def _scandir(path="."):
    _maybe_fault("listdir", path)
    it = _real_scandir(path)
    if _state["order"] is None:
        return it
    with it:
        entries = list(it)
    out = _plan_order(path, [e.name for e in entries])
    if out is None:
        return _OrderedScandir(entries)
    by_name = {e.name: e for e in entries}
    return _OrderedScandir([by_name[n] for n in out])


def install():
    os.listdir = _listdir
    os.scandir = _scandir
    builtins.open = _open
    io.open = _open


def set_root(root):
    _state["root"] = os.path.abspath(root) if root else None


def begin_scan(order_by_absdir, explicit=True):
    _state["order"] = order_by_absdir
    _state["explicit"] = explicit
    _state["served"] = []


def end_scan():
    served = _state["served"]
    _state["order"] = None
    _state["served"] = []
    return served


def counters():
    return {k: _state[k] for k in ("unplanned", "unsorted", "listings")}


def reset_counters():
    for k in ("unplanned", "unsorted", "listings"):
        _state[k] = 0


def scratch_base():
    """Base directory for scratch trees: tmpfs if available (never /repo, never /verif)."""
    for cand in ("/dev/shm", os.environ.get("TMPDIR") or "/tmp"):
        if os.path.isdir(cand) and os.access(cand, os.W_OK):
            return cand
    return "/tmp"


def materialise(world, root):
    """Write the plan's world below `root` (absolute). Files are created in sorted order."""
    if os.path.exists(root):
        shutil.rmtree(root)
    os.makedirs(root)
    for tname in sorted(world.get("trees", {})):
        tree = world["trees"][tname]
        base = os.path.join(root, tname)
        os.makedirs(base)
        for d in sorted(tree.get("dirs", [])):
            os.makedirs(os.path.join(base, d), exist_ok=True)
        for rel in sorted(tree.get("files", {})):
            p = os.path.join(base, rel)
            os.makedirs(os.path.dirname(p), exist_ok=True)
            with open(p, "w", encoding="utf-8") as fh:
                fh.write(tree["files"][rel])
    for tname in sorted(world.get("trees", {})):
        base = os.path.join(root, tname)
        for rel, target in sorted((world["trees"][tname].get("links") or {}).items()):
            p = os.path.join(base, rel)
            if os.path.lexists(p) or not os.path.exists(os.path.join(base, target)):
                continue  # (a plan cut down by the minimiser may have lost the target)
            os.symlink(os.path.relpath(os.path.join(base, target), os.path.dirname(p)), p)
    pumls = world.get("pumls", {})
    if pumls:
        pdir = os.path.join(root, "pumls")
        os.makedirs(pdir)
        for pname in sorted(pumls):
            with open(os.path.join(pdir, pname + ".puml"), "w", encoding="utf-8") as fh:
                fh.write(pumls[pname])


def cleanup(root):
    shutil.rmtree(root, ignore_errors=True)
