"""Executable reference models (specification automata). Independent of the code under test:
nothing here imports pytestarch.  Written from the property statements C13 and C16 and
the user documentation, not from the implementation.
"""

MUST_REJECT = "must_reject"
FREE = "free"  # the property does not say; outcome recorded, never judged


# ------------------------------------------------------------------------------------
# C16: LayeredArchitecture builder
# ------------------------------------------------------------------------------------
class LayerDefModel:
    """state: ordered [(layer name, None | ("mods", [names]) | ("regex", r))]"""

    def __init__(self):
        self.layers = []

    def copy(self):
        m = LayerDefModel()
        m.layers = [(n, None if c is None else (c[0], list(c[1]) if c[0] == "mods" else c[1]))
                    for n, c in self.layers]
        return m

    def pending(self):
        return [n for n, c in self.layers if c is None]

    def assigned(self):
        out = set()
        for _, c in self.layers:
            if c is not None and c[0] == "mods":
                out.update(c[1])
        return out

    def plain_patterns(self):
        import re
        return {c[1] for _, c in self.layers if c is not None and c[0] == "regex" and isinstance(c[1], str)
                and re.fullmatch(r"[A-Za-z_]\w*(\.[A-Za-z_]\w*)*", c[1])}

    def shape(self):
        """Abstract state shape used for transition coverage."""
        kinds = []
        for _, c in self.layers:
            kinds.append("P" if c is None else ("M%d" % len(c[1]) if c[0] == "mods" else "R"))
        return "-".join(kinds) or "empty"

    def classify(self, m, args):
        """Return (verdict, reason) for call m(*args) in the current state (no mutation)."""
        if m == "with_layer":
            return FREE, "with_layer"
        if m == "layer":
            if self.pending():
                return MUST_REJECT, "layer-opened-while-previous-has-no-modules"
            if args[0] in [n for n, _ in self.layers]:
                return MUST_REJECT, "layer-name-defined-twice"
            return FREE, "layer"
        if m == "containing_modules":
            if not self.pending():
                return MUST_REJECT, "modules-without-open-layer"
            names = args[0] if isinstance(args[0], list) else [args[0]]
            if not names:
                # an empty list supplies no module: whether it is accepted is not specified, but
                # the layer has still not received its modules
                return FREE, "containing_modules(empty)"
            if self.assigned().intersection(names):
                form = "list" if isinstance(args[0], list) else "str"
                return MUST_REJECT, f"module-assigned-twice({form})"
            if self.plain_patterns().intersection(names):
                # an earlier layer is defined by a pattern that is nothing but this very name (no
                # metacharacter but the dot): as a pattern it matches the module of that name, which
                # would sit in two layers
                return MUST_REJECT, "module-assigned-twice(pattern-layer-holds-the-same-name)"
            return FREE, "containing_modules"
        if m == "have_modules_with_names_matching":
            if not self.pending():
                return MUST_REJECT, "regex-without-open-layer"
            return FREE, "regex"
        raise ValueError(m)

    def apply(self, m, args):
        """Mutate the model as an *accepted* call prescribes."""
        if m == "with_layer":
            return
        if m == "layer":
            self.layers.append((args[0], None))
            return
        idx = [i for i, (_, c) in enumerate(self.layers) if c is None][0]
        name = self.layers[idx][0]
        if m == "containing_modules":
            names = list(args[0]) if isinstance(args[0], list) else [args[0]]
            if not names:
                return  # nothing supplied: the layer stays open
            self.layers[idx] = (name, ("mods", names))
        else:
            self.layers[idx] = (name, ("regex", args[0]))

    def listing(self):
        """[(layer, [identifiers in order])] an accepted definition must show."""
        out = []
        for n, c in self.layers:
            if c is None:
                out.append((n, []))
            elif c[0] == "mods":
                out.append((n, list(c[1])))
            else:
                out.append((n, [c[1]]))
        return out

    def tokens(self):
        """Flat token sequence (layer names and identifiers) in definition order."""
        out = []
        for n, ids in self.listing():
            if n:  # a layer called "" leaves no token in the text
                out.append(n)
            out.extend(i for i in ids if i)
        return out


LAYER_VERBS = ("should", "should_only", "should_not")
LAYER_ACCESS = (
    "access_layers_that",
    "be_accessed_by_layers_that",
    "access_layers_except_layers_that",
    "be_accessed_by_layers_except_layers_that",
)
LAYER_ANY = ("access_any_layer", "be_accessed_by_any_layer")


class LayerRuleModel:
    """C16 part of LayerRule: needs an architecture first, exactly one subject layer."""

    def __init__(self):
        self.arch = False
        self.started = False  # layers_that() accepted
        self.subject = False
        self.in_object = False

    def shape(self):
        return "a%d-s%d-u%d-o%d" % (self.arch, self.started, self.subject, self.in_object)

    def classify(self, m, args):
        if m == "based_on":
            if self.arch:
                return MUST_REJECT, "architecture-given-twice"
            return FREE, "based_on"
        if not self.arch:
            return MUST_REJECT, f"{_kind(m)}-without-architecture"
        if m == "layers_that":
            return FREE, "layers_that"
        if not self.started:
            return FREE, "before-layers_that"  # code rejects; C16 does not demand it
        if m == "are_named":
            if not self.in_object:
                if self.subject:
                    return MUST_REJECT, "second-subject-layer"
                if isinstance(args[0], list):
                    return MUST_REJECT, "subject-layers-in-batch"
            return FREE, "are_named"
        return FREE, m

    def apply(self, m, args):
        if m == "based_on":
            self.arch = True
        elif m == "layers_that":
            self.started = True
            self.subject = False
            self.in_object = False
        elif m == "are_named":
            if not self.in_object:
                self.subject = True
        elif m in LAYER_ACCESS or m in LAYER_ANY:
            self.in_object = True


def _kind(m):
    if m in LAYER_VERBS:
        return "verb"
    if m in LAYER_ACCESS or m in LAYER_ANY:
        return "access"
    return m


# ------------------------------------------------------------------------------------
# C13: specification automata
# ------------------------------------------------------------------------------------
RULE_SUBJECT = "modules_that"
RULE_LISTS = ("are_named", "are_sub_modules_of", "have_name_matching", "have_name_containing")
RULE_VERBS = ("should", "should_only", "should_not")
RULE_IMPORTS = (
    "import_modules_that",
    "be_imported_by_modules_that",
    "import_modules_except_modules_that",
    "be_imported_by_modules_except_modules_that",
)
RULE_ANY = ("import_anything", "be_imported_by_anything")

COMPLETE = "complete"
INCOMPLETE = "incomplete"
CONTRADICTORY = "contradictory"
BAD = "bad"
AMBIGUOUS = "ambiguous"
UNDEFINED = "undefined"


def partial_name_matches(pattern, name):
    """Documented meaning of the deprecated partial-name syntax ('*' only at the ends)."""
    lead = pattern.startswith("*")
    trail = pattern.endswith("*") and len(pattern) > (1 if lead else 0)
    core = pattern[(1 if lead else 0): (len(pattern) - 1 if trail else len(pattern))]
    if lead and trail:
        return core in name
    if lead:
        return name.endswith(core)
    if trail:
        return name.startswith(core)
    return name == core


class RuleSpec:
    """Specification automaton of the module-rule fluent chain."""

    def __init__(self):
        self.side = None  # None | "subj" | "obj"
        self.subj = None  # list of (kind, value)
        self.obj = None
        self.verbs = set()
        self.imp = None
        self.anything = False
        self.obj_after_anything = False
        self.bad = None  # first definitely-bad call (object before subject)
        # An evaluation of a rule that uses the alias may rewrite the stored specification
        # (the alias is expanded in place).  What later calls mean after that is not
        # specified, so from then on only the verb rule is judged.
        self.maybe_converted = False

    def applied(self):
        """An evaluation was attempted in the current state."""
        if self.anything:
            self.maybe_converted = True

    def state_key(self):
        return "%s|s%d|o%d|%s|i%s|a%d%d" % (
            self.side, self.subj is not None, self.obj is not None,
            "".join(sorted(v[7:8] or "s" for v in self.verbs)),
            {None: "n", True: "t", False: "f"}[self.imp], self.anything, self.obj_after_anything)

    def call(self, m, args=()):
        """Advance; returns BAD if this very call is definitely ill-formed, else None."""
        if m == RULE_SUBJECT:
            self.side = "subj"
        elif m in RULE_LISTS:
            if self.side is None:
                self.bad = self.bad or "module-list-before-subject-or-object"
                return BAD
            vals = args[0] if isinstance(args[0], list) else [args[0]]
            flt = [(m, v) for v in vals]
            if self.side == "subj":
                self.subj = flt
            else:
                self.obj = flt
                if self.anything:
                    self.obj_after_anything = True
        elif m in RULE_VERBS:
            self.verbs.add(m)
        elif m in RULE_IMPORTS:
            self.imp = m.startswith("import")
            self.side = "obj"
        elif m in RULE_ANY:
            self.imp = m.startswith("import")
            self.side = "obj"
            self.anything = True
            self.obj_after_anything = False
        else:
            raise ValueError(m)
        return None

    def classify(self):
        """Classification at assert_applies: (class, reason)."""
        if self.bad:
            return BAD, self.bad
        missing = []
        if not self.subj:
            missing.append("subject")
        if not self.verbs:
            missing.append("verb")
        if self.imp is None:
            missing.append("import-type")
        if not self.obj and not self.anything:
            missing.append("object")
        if missing:
            return INCOMPLETE, "missing-" + "+".join(missing)
        if "should_not" in self.verbs and len(self.verbs) > 1:
            return CONTRADICTORY, "should_not-with-other-verb"
        if self.maybe_converted:
            return AMBIGUOUS, "re-evaluated-after-alias-expansion"
        if self.anything and self.obj_after_anything:
            return AMBIGUOUS, "explicit-object-after-anything"
        if self.anything and self.verbs != {"should_not"}:
            return CONTRADICTORY, "anything-with-" + "+".join(sorted(self.verbs))
        if len(self.verbs) > 1:
            return AMBIGUOUS, "should-with-should_only"
        return COMPLETE, "complete"

    def mentioned(self):
        out = list(self.subj or [])
        if not self.anything:
            out.extend(self.obj or [])
        return out


def filters_undefined(filters, modules):
    """Names/regexes of `filters` that the architecture with `modules` does not define."""
    import re

    modset = set(modules)
    bad = []
    for kind, v in filters:
        if kind in ("are_named", "are_sub_modules_of"):
            if v not in modset:
                bad.append((kind, v))
        elif kind == "have_name_matching":
            # weakest reading: a pattern is "matching nothing" only if it is found nowhere in
            # any module name (so match / search / fullmatch semantics all agree)
            rx = re.compile(v)
            if not any(rx.search(m) for m in modules):
                bad.append((kind, v))
        elif kind == "have_name_containing":
            core = v.strip("*")
            if not any(core in m for m in modules):
                bad.append((kind, v))
    return bad


class LayerRuleSpec:
    """Specification automaton of the layer-rule fluent chain (C13 view)."""

    def __init__(self, archs):
        self.archs = archs  # id -> [(layer, ("mods",[..]) | ("regex", r))]
        self.arch = None
        self.started = False
        self.subj = None
        self.obj = None
        self.in_object = False
        self.verbs = set()
        self.acc = None
        self.any = False
        self.obj_after_any = False
        self.bad = None
        self.second_subject = False
        self.maybe_converted = False

    def applied(self):
        if self.any:
            self.maybe_converted = True

    def call(self, m, args=()):
        if m == "based_on":
            if self.arch is not None:
                self.bad = self.bad or "architecture-given-twice"
                return BAD
            self.arch = args[0]
            return None
        if self.arch is None:
            self.bad = self.bad or f"{_kind(m)}-without-architecture"
            return BAD
        if m == "layers_that":
            self.started = True
            self.subj = None
            self.obj = None
            self.in_object = False
            self.verbs = set()
            self.acc = None
            self.any = False
            self.obj_after_any = False
            self.second_subject = False
            self.maybe_converted = False
            return None
        if not self.started:
            # Wiped by the layers_that() that must follow; if none follows the chain is
            # incomplete (no subject). Neutral here so that no refactoring is constrained.
            return None
        if m == "are_named":
            names = args[0] if isinstance(args[0], list) else [args[0]]
            known = dict(self.archs[self.arch])
            if any(n not in known for n in names):
                self.bad = self.bad or "layer-never-defined"
                return BAD
            if not self.in_object:
                if isinstance(args[0], list):
                    self.bad = self.bad or "subject-layers-in-batch"
                    return BAD
                if self.subj is not None:
                    self.second_subject = True
                self.subj = (self.subj or []) + names
            else:
                self.obj = (self.obj or []) + names
                if self.any:
                    self.obj_after_any = True
        elif m in LAYER_VERBS:
            self.verbs.add(m)
        elif m in LAYER_ACCESS:
            self.acc = m
            self.in_object = True
        elif m in LAYER_ANY:
            self.acc = m
            self.in_object = True
            self.any = True
            self.obj_after_any = False
        else:
            raise ValueError(m)
        return None

    def classify(self):
        if self.bad:
            return BAD, self.bad
        missing = []
        if self.arch is None:
            missing.append("architecture")
        if not self.subj:
            missing.append("subject")
        if not self.verbs:
            missing.append("verb")
        if self.acc is None:
            missing.append("access-type")
        if not self.obj and not self.any:
            missing.append("object")
        if missing:
            return INCOMPLETE, "missing-" + "+".join(missing)
        if "should_not" in self.verbs and len(self.verbs) > 1:
            return CONTRADICTORY, "should_not-with-other-verb"
        if self.maybe_converted:
            return AMBIGUOUS, "re-evaluated-after-alias-expansion"
        if self.second_subject:
            return AMBIGUOUS, "two-subject-layers"
        if self.any and self.obj_after_any:
            return AMBIGUOUS, "explicit-object-after-any-layer"
        if self.any and self.verbs != {"should_not"}:
            return CONTRADICTORY, "any-layer-with-" + "+".join(sorted(self.verbs))
        if len(self.verbs) > 1:
            return AMBIGUOUS, "should-with-should_only"
        return COMPLETE, "complete"

    def mentioned(self):
        """Filters of the *referenced* layers, in the vocabulary of filters_undefined."""
        out = []
        known = dict(self.archs[self.arch]) if self.arch is not None else {}
        layers = list(self.subj or [])
        if not self.any:
            layers += list(self.obj or [])
        for layer in layers:
            c = known.get(layer)
            if c is None:
                continue
            if c[0] == "mods":
                out.extend(("are_named", n) for n in c[1])
            else:
                out.append(("have_name_matching", c[1]))
        return out


class DiagramSpec:
    def __init__(self, pumls):
        self.pumls = pumls  # id -> {"tags": bool, "components": [names]}
        self.file = None
        self.base = None

    def call(self, m, args=()):
        if m == "from_file":
            self.file = args[0]
        elif m == "with_base_module":
            self.base = args[0]
        elif m == "base_module_included_in_module_names":
            pass
        else:
            raise ValueError(m)
        return None

    def classify(self):
        if self.file is None:
            return INCOMPLETE, "diagram-without-file"
        if not self.pumls[self.file]["tags"]:
            return BAD, "diagram-without-start-end-tags"
        return COMPLETE, "complete"

    def mentioned(self):
        comps = self.pumls[self.file]["components"] if self.file is not None else []
        if self.base is not None:
            return [("are_named", f"{self.base}.{c}") for c in comps]
        return [("are_named", c) for c in comps]


def entry_point_bad(kw, module_below_root):
    """C13 entry-point options: returns a reason if the request is contradictory."""
    # only what the caller wrote counts: regex_exclusions next to the *default* exclusions is
    # rejected by the code too, but the property only names mutually exclusive options
    if kw.get("regex_exclusions") and kw.get("exclusions"):
        return "both-exclusion-kinds"
    if kw.get("regex_external_exclusions") and kw.get("external_exclusions"):
        return "both-external-exclusion-kinds"
    if kw.get("exclude_external_libraries", True) and (
        kw.get("external_exclusions") or kw.get("regex_external_exclusions")
    ):
        return "external-patterns-while-externals-excluded"
    if not module_below_root:
        return "module_path-outside-root_path"
    return None
