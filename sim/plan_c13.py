"""C13 plan generator: fluent-API call histories that must never produce a verdict.

Pure function of (seed, index); imports nothing from the code under test.  A plan is one
simulated session: a world (tree, 2-4 evaluables, layered architectures, diagram files) and
1-4 clients, each driving several *chains* (one fresh rule object per chain) whose calls the
schedule interleaves.  Chains come from five families:

  mut    every complete call chain shape x every single deletion / duplication /
         transposition (systematic: enumerated by a counter derived from the plan index)
  seq    every call sequence of length <= 5 over the complete Rule / LayerRule /
         DiagramRule vocabularies (systematic: mixed-radix decoding of a counter)
  undef  complete chains in which names are replaced by misspelt / too-deep /
         level-limit-cut names or unmatched patterns, alone and inside batches
  entry  every option combination of the two entry points (systematic)
  long   random sequences of length 6-9 with evaluations in the middle of the chain
  reuse  a complete chain is evaluated, then modified (conflicting verb, unknown name, alias,
         restart, another file / evaluable) and evaluated again on the same object

What each chain *is* (complete / incomplete / contradictory / bad / undefined) is decided
by the judge's specification automaton from the calls actually executed, never by this file.
"""
import random

from . import world as W
from .models import (LAYER_ACCESS, LAYER_ANY, LAYER_VERBS, RULE_ANY, RULE_IMPORTS, RULE_LISTS,
                     RULE_VERBS)

GROUP = 8  # plans per world

# --- systematic spaces --------------------------------------------------------------------
# complete module-rule shapes: subject kind x verb x (import type x object kind | alias)
MODULE_SHAPES = []
for _s in RULE_LISTS:
    for _v in RULE_VERBS:
        for _i in RULE_IMPORTS:
            for _o in RULE_LISTS:
                MODULE_SHAPES.append((_s, _v, _i, _o))
        for _a in RULE_ANY:
            MODULE_SHAPES.append((_s, _v, _a, None))
LAYER_SHAPES = []
for _v in LAYER_VERBS:
    for _i in LAYER_ACCESS:
        for _o in ("str", "list"):
            LAYER_SHAPES.append((_v, _i, _o))
    for _a in LAYER_ANY:
        LAYER_SHAPES.append((_v, _a, None))
DIAGRAM_SHAPES = [(so, nm) for so in (True, False) for nm in ("base", "included")]


def _mutations(n):
    """identity + every single deletion, duplication, transposition of a chain of n calls."""
    out = [("id", 0)]
    out += [("del", i) for i in range(n)]
    out += [("dup", i) for i in range(n)]
    out += [("swap", i) for i in range(n - 1)]
    return out


MUT_SPACE = []  # (family, shape index, mutation)
for _k, _sh in enumerate(MODULE_SHAPES):
    for _m in _mutations(5 if _sh[3] else 4):
        MUT_SPACE.append(("module", _k, _m))
for _k, _sh in enumerate(LAYER_SHAPES):
    for _m in _mutations(6 if _sh[2] else 5):
        MUT_SPACE.append(("layer", _k, _m))
for _k, _sh in enumerate(DIAGRAM_SHAPES):
    for _m in _mutations(2):
        MUT_SPACE.append(("diagram", _k, _m))

RULE_VOCAB = ["modules_that"] + list(RULE_LISTS) + list(RULE_VERBS) + list(RULE_IMPORTS) + list(RULE_ANY)
LRULE_VOCAB = (["based_on", "layers_that", "are_named:str", "are_named:list"] + list(LAYER_VERBS)
               + list(LAYER_ACCESS) + list(LAYER_ANY))
DIAG_VOCAB = ["from_file", "with_base_module", "base_module_included_in_module_names"]
SEQ_MAXLEN = 5


def _seq_space(vocab):
    return sum(len(vocab) ** k for k in range(1, SEQ_MAXLEN + 1))


SEQ_SPACES = [("module", RULE_VOCAB, _seq_space(RULE_VOCAB)),
              ("layer", LRULE_VOCAB, _seq_space(LRULE_VOCAB)),
              ("diagram", DIAG_VOCAB, _seq_space(DIAG_VOCAB))]
SEQ_TOTAL = sum(s[2] for s in SEQ_SPACES)


def decode_seq(no):
    """Sequence number -> (family, [method tokens]) over all sequences of length 1..5."""
    for fam, vocab, size in SEQ_SPACES:
        if no < size:
            n = len(vocab)
            for k in range(1, SEQ_MAXLEN + 1):
                if no < n ** k:
                    toks = []
                    for _ in range(k):
                        toks.append(vocab[no % n])
                        no //= n
                    return fam, toks
                no -= n ** k
        no -= size
    raise IndexError(no)


ENTRY_OPTS = {
    "exclusions": [None, [], ["*zzz*"]],
    "regex_exclusions": [None, [], [".*zzz.*"]],
    "exclude_external_libraries": [None, True, False],
    "external_exclusions": [None, [], ["os*"]],
    "regex_external_exclusions": [None, [], ["os.*"]],
    "level_limit": [None, 1],
}
ENTRY_PLACEMENTS = ["root", "below", "outside_parent", "outside_sibling"]
ENTRY_VIA = ["path", "modobj"]
ENTRY_TOTAL = 3 ** 5 * 2 * len(ENTRY_PLACEMENTS) * len(ENTRY_VIA)


def decode_entry(no):
    kw = {}
    for name in sorted(ENTRY_OPTS):
        vals = ENTRY_OPTS[name]
        v = vals[no % len(vals)]
        no //= len(vals)
        if v is not None:
            kw[name] = v
    place = ENTRY_PLACEMENTS[no % len(ENTRY_PLACEMENTS)]
    no //= len(ENTRY_PLACEMENTS)
    via = ENTRY_VIA[no % len(ENTRY_VIA)]
    return kw, place, via


P1, P2, P3 = 1000003, 7919, 104729  # strides coprime to the space sizes


# --- values -------------------------------------------------------------------------------
class Names:
    """Name material of one world for one target evaluable."""

    def __init__(self, rng, predicted, universe, kw=None):
        self.rng = rng
        # external names this scan configuration makes interesting: those an exact external
        # exclusion removes, and what lies below them
        pats = [p.rstrip("$") for p in (kw or {}).get("external_exclusions", []) +
                (kw or {}).get("regex_external_exclusions", []) if "*" not in p]
        self.ext_hot = [e for e in W.EXTERNALS if any(e == p or e.startswith(p + ".") for p in pats)]
        self.ext_hot += [p for p in pats if p.isidentifier()]
        self.mods = ([m for m in predicted if not m.endswith("__init__")] or list(predicted)
                     or [m for m in universe if not m.endswith("__init__")] or ["nosuchroot"])
        self.cut = [m for m in universe if m not in predicted and not m.endswith("__init__")]

    def external(self):
        """The name of an external library (part of the architecture only if externals are
        included, imported somewhere and not removed by an external exclusion)."""
        ext = W.pick(self.rng, self.ext_hot if self.ext_hot and self.rng.random() < 0.8 else W.EXTERNALS)
        return ext if self.rng.random() < 0.6 else ext.split(".")[0]

    def known(self):
        return W.pick(self.rng, self.mods)

    def unknown(self):
        r = self.rng.random()
        m = self.known()
        odd = [x for x in self.mods if set(x.rsplit(".", 1)[-1]) & set("- ~")]
        if odd and self.rng.random() < 0.3:
            # "pkg.core-old" exists: the plain name it continues, if that is not there
            x = W.pick(self.rng, odd)
            head, _, last = x.rpartition(".")
            cut = min(i for i, ch in enumerate(last) if ch in "- ~")
            plain = (head + "." if head else "") + last[:cut]
            if plain not in self.mods and last[:cut]:
                return plain
        if r < 0.25:
            return m + "x"  # misspelt sibling: shares a prefix with a real name
        if r < 0.45:
            return m + ".deeper"  # too deep
        if r < 0.6 and self.cut:
            return W.pick(self.rng, self.cut)  # exists on disk, not in this evaluable
        if r < 0.75:
            return m.rsplit(".", 1)[0] + ".nosuch" if "." in m else m + "q"
        if r < 0.85:
            return m[:-1] if len(m) > 2 and m[:-1] not in self.mods else m + "_"
        return "nosuchroot." + m.rsplit(".", 1)[-1]

    def name(self, p_unknown):
        return self.unknown() if self.rng.random() < p_unknown else self.known()

    def value(self, kind, p_unknown, batch_ok=True):
        """Argument for a module-list call of the given kind."""
        rng = self.rng
        if kind != "have_name_matching" and rng.random() < 0.03:
            return []  # an empty batch names nothing: the side stays unspecified
        if kind in ("are_named", "are_sub_modules_of"):
            pool = self.mods
            if kind == "are_sub_modules_of":
                pool = sorted({m.rsplit(".", 1)[0] for m in self.mods if "." in m}) or self.mods
            r = rng.random()
            if not batch_ok or r < 0.55:
                v = W.pick(rng, pool)
                if kind == "are_named" and rng.random() < (0.3 if self.ext_hot else 0.05):
                    v = self.external()
                v = self.unknown() if rng.random() < p_unknown else v
                return [v] if rng.random() < 0.15 else v
            k = rng.randint(2, 3)
            vals = [W.pick(rng, pool) for _ in range(k)]
            if rng.random() < min(1.0, p_unknown * 2):
                j = rng.randrange(k)
                base = vals[(j + 1) % k]
                form = rng.random()
                # an unknown name next to a known one, often one that merely extends it
                vals[j] = (base + "x" if form < 0.3 else base + ".deeper" if form < 0.6
                           else self.unknown())
            out = []
            for v in vals:
                if v not in out:
                    out.append(v)
            return out
        if kind == "have_name_matching":
            m = self.known()
            last = m.rsplit(".", 1)[-1]
            if rng.random() < p_unknown:
                return W.pick(rng, [".*nosuchthing.*", "^" + m.replace(".", "\\.") + "xq$",
                                    "nosuch\\..*", ".*\\.zzzz$"])
            one = W.pick(rng, ["^" + m.replace(".", "\\.") + "$", ".*" + last + ".*",
                               ".*\\." + last + "$", "^" + m.replace(".", "\\.") + "(\\..*)?$"])
            if batch_ok and rng.random() < 0.2:
                # the list form shown in the documentation; the second pattern may match nothing
                m2 = self.known()
                two = (W.pick(rng, [".*nosuchthing.*", "nosuch\\..*"]) if rng.random() < 0.5
                       else "^" + m2.replace(".", "\\.") + "$")
                pair = [one, two]
                rng.shuffle(pair)
                return pair if pair[0] != pair[1] else one
            return one
        # have_name_containing (deprecated partial-name syntax)
        m = self.known()
        last = m.rsplit(".", 1)[-1]
        if rng.random() < p_unknown:
            v = W.pick(rng, ["*nosuchthing*", m + "xq", "*.zzzz", "nosuch*"])
        else:
            v = W.pick(rng, [f"*{last}*", f"*.{last}", m, m + "*"])
        if batch_ok and rng.random() < 0.15:
            return [v, f"*{self.known().rsplit('.', 1)[-1]}*"]
        return v


def _call(obj, m, *a):
    return {"op": "call", "obj": obj, "m": m, "a": list(a)}


def _mutate(calls, mut):
    kind, i = mut
    calls = list(calls)
    if kind == "del":
        del calls[i]
    elif kind == "dup":
        calls.insert(i + 1, dict(calls[i]))
    elif kind == "swap":
        calls[i], calls[i + 1] = calls[i + 1], calls[i]
    return calls


# --- world --------------------------------------------------------------------------------
def gen_world(wseed):
    rng = random.Random(f"{wseed}:world")
    tree = W.gen_tree(rng, "t0")
    cfgs, predicted = {}, {}
    for j in range(rng.randint(2, 4)):
        cfg, mods = W.gen_cfg(rng, tree, plain=(j == 0), ext_bias=True)
        cfgs[f"c{j}"] = cfg
        predicted[f"c{j}"] = mods
    cfg_ids = sorted(cfgs)
    universe = tree.all_modules()
    archs = {}
    for a in range(2):
        target = W.pick(rng, cfg_ids)
        arch = W.gen_arch(rng, predicted[target], all_named=(a == 0 or rng.random() < 0.5),
                          universe=universe)
        if len(arch) < 2:
            continue
        layers = [[n, [c[0], list(c[1]) if c[0] == "mods" else c[1]]] for n, c in arch]
        typo = None
        if a == 1 and rng.random() < 0.7:
            # a definition with a typo: one module name that no evaluable contains
            named = [l for l in layers if l[1][0] == "mods"]
            if named:
                l = W.pick(rng, named)
                j = rng.randrange(len(l[1][1]))
                form = rng.random()
                if form < 0.5 and len(l[1][1]) > 1:
                    l[1][1][j] = l[1][1][(j + 1) % len(l[1][1])] + ".deeper"
                elif form < 0.75:
                    l[1][1][j] = l[1][1][j] + "x"
                else:
                    l[1][1][j] = l[1][1][j] + ".nosuch"
                typo = l[0]
        archs[f"A{a}"] = {"layers": layers, "cfg": target, "typo_layer": typo}
    pumls = {}
    for p in range(4):
        target = W.pick(rng, cfg_ids)
        pu = W.gen_puml(rng, tree, predicted[target], p_ghost=0.45, p_alias=0.55)
        if pu:
            pumls[f"p{len(pumls)}"] = {"text": pu["text"], "base": pu["base"], "tags": True,
                                       "components": pu["components"], "cfg": target}
    if pumls:
        src = pumls[sorted(pumls)[0]]
        form = rng.random()
        if form < 0.25:
            text = src["text"].replace("@startuml", "")
        elif form < 0.5:
            text = src["text"].replace("@enduml", "")
        elif form < 0.65:
            text = src["text"].replace("@startuml", "").replace("@enduml", "")
        elif form < 0.75:
            text = src["text"].replace("@startuml", "startuml")  # the word without its '@' is no tag
        elif form < 0.85:
            text = src["text"].replace("@enduml", "enduml")
        elif form < 0.93:
            text = ""  # an empty file has no tags either
        else:
            text = " \n\n"
        pumls["pbad"] = {"text": text, "base": src["base"], "tags": False,
                         "components": src["components"], "cfg": src["cfg"]}
    return {"tree": tree, "cfgs": cfgs, "predicted": predicted, "archs": archs, "pumls": pumls,
            "universe": universe}


# --- chain builders -----------------------------------------------------------------------
class Ctx:
    def __init__(self, rng, wd, evs):
        self.rng, self.wd, self.evs = rng, wd, evs  # evs: ev id -> cfg id
        self.n = 0

    def obj(self, prefix, client):
        self.n += 1
        return f"{prefix}{client}_{self.n}"

    def target(self):
        ev = W.pick(self.rng, sorted(self.evs))
        hot = [e for e in sorted(self.evs)
               if (self.wd["cfgs"][self.evs[e]].get("kw") or {}).get("exclude_external_libraries") is False]
        if hot and self.rng.random() < 0.25:
            ev = W.pick(self.rng, hot)  # an architecture that contains external libraries
        return ev, Names(self.rng, self.wd["predicted"][self.evs[ev]], self.wd["universe"],
                         self.wd["cfgs"][self.evs[ev]].get("kw"))

    def arch(self, prefer_typo=False):
        ids = sorted(self.wd["archs"])
        if not ids:
            return None
        if prefer_typo:
            t = [a for a in ids if self.wd["archs"][a]["typo_layer"]]
            if t:
                return t[0]
        return W.pick(self.rng, ids)

    def ev_for_cfg(self, cfg):
        c = [e for e, k in sorted(self.evs.items()) if k == cfg]
        return W.pick(self.rng, c) if c and self.rng.random() < 0.8 else W.pick(self.rng, sorted(self.evs))


def module_chain(ctx, obj, shape, p_unknown):
    s, v, i, o = shape
    ev, names = ctx.target()
    calls = [_call(obj, "modules_that"), _call(obj, s, names.value(s, p_unknown)),
             _call(obj, v), _call(obj, i)]
    if o:
        calls.append(_call(obj, o, names.value(o, p_unknown)))
    return {"op": "new", "obj": obj, "cls": "Rule"}, calls, ev


def _unknown_layer(rng, layers):
    """A layer name the definition does not have: a plain stranger, the empty string, two defined
    names run together, a defined name in other case / with a trailing blank / cut short."""
    a, b = layers[0], layers[-1]
    cand = rng.choice(["LX", "LX", "", a + b, b + a, a.lower() if a.lower() != a else a.upper(),
                       a + " ", a[:-1] or "Z"])
    return cand if cand not in layers else "LX"


def layer_chain(ctx, obj, shape, prefer_typo=False, p_unknown_layer=0.0, avoid_typo=False):
    v, i, o = shape
    aid = ctx.arch(prefer_typo or avoid_typo)
    if aid is None:
        return None
    arch = ctx.wd["archs"][aid]
    layers = [l[0] for l in arch["layers"]]
    if avoid_typo:
        # the definition with the typo, but a rule that (so far) names only its sound layers
        sound = [l for l in layers if l != arch["typo_layer"]]
        layers = sound if len(sound) >= 2 else layers
        prefer_typo = False
    rng = ctx.rng
    subj = arch["typo_layer"] if prefer_typo and arch["typo_layer"] and rng.random() < 0.5 \
        else W.pick(rng, layers)
    others = [l for l in layers if l != subj] or layers
    if rng.random() < p_unknown_layer:
        subj = _unknown_layer(rng, layers)
    calls = [_call(obj, "based_on", {"$obj": aid}), _call(obj, "layers_that"),
             _call(obj, "are_named", subj), _call(obj, v), _call(obj, i)]
    if o == "str":
        calls.append(_call(obj, "are_named", _unknown_layer(rng, layers) if rng.random() < p_unknown_layer
                           else W.pick(rng, others)))
    elif o == "list":
        objs = rng.sample(others, min(2, len(others)))
        if prefer_typo and arch["typo_layer"] and arch["typo_layer"] != subj \
                and arch["typo_layer"] not in objs:
            objs[0] = arch["typo_layer"]
        if rng.random() < p_unknown_layer:
            objs[-1] = _unknown_layer(rng, layers)
        calls.append(_call(obj, "are_named", objs))
    return {"op": "new", "obj": obj, "cls": "LayerRule"}, calls, ctx.ev_for_cfg(arch["cfg"])


def diagram_chain(ctx, obj, shape, pid=None):
    so, naming = shape
    ids = sorted(ctx.wd["pumls"])
    if not ids:
        return None
    pid = pid or W.pick(ctx.rng, ids)
    pu = ctx.wd["pumls"][pid]
    calls = [_call(obj, "from_file", {"$puml": pid})]
    if naming == "base":
        base = pu["base"]
        if ctx.rng.random() < 0.15:
            base = base + "x"
        calls.append(_call(obj, "with_base_module", base))
    else:
        calls.append(_call(obj, "base_module_included_in_module_names"))
    return ({"op": "new", "obj": obj, "cls": "DiagramRule", "kw": {"should_only_rule": so}},
            calls, ctx.ev_for_cfg(pu["cfg"]))


def _finish(new, calls, ev, rng, mid_apply=0.0):
    ops = [new]
    for k, c in enumerate(calls):
        ops.append(c)
        if mid_apply and k < len(calls) - 1 and rng.random() < mid_apply:
            ops.append({"op": "apply", "obj": new["obj"], "ev": ev})
    ops.append({"op": "apply", "obj": new["obj"], "ev": ev})
    if rng.random() < 0.1:
        ops.append({"op": "apply", "obj": new["obj"], "ev": ev})  # re-evaluation
    return ops


def chain_mut(ctx, client, counter, no=None):
    systematic = no is not None
    if no is None:
        no = (counter * P2) % len(MUT_SPACE)
    fam, k, mut = MUT_SPACE[no]
    if fam == "module":
        built = module_chain(ctx, ctx.obj("M", client), MODULE_SHAPES[k], 0.0)
    elif fam == "layer":
        built = layer_chain(ctx, ctx.obj("L", client), LAYER_SHAPES[k])
    else:
        built = diagram_chain(ctx, ctx.obj("D", client), DIAGRAM_SHAPES[k],
                              pid=W.pick(ctx.rng, [p for p in sorted(ctx.wd["pumls"]) if p != "pbad"] or [None]))
    if built is None:
        return None, None
    new, calls, ev = built
    calls = _mutate(calls, mut)
    tag = f"mut:{no}"
    if not systematic and len(calls) >= 2 and ctx.rng.random() < 0.35:
        # a second slip on top of the first one (a call dropped AND two calls swapped, ...)
        kind2 = ctx.rng.choice(["del", "dup", "swap"])
        calls = _mutate(calls, (kind2, ctx.rng.randrange(len(calls) - (1 if kind2 == "swap" else 0))))
        tag = None
    return _finish(new, calls, ev, ctx.rng), tag


def _tok_call(ctx, obj, fam, tok, names, aid):
    rng = ctx.rng
    if fam == "module":
        if tok in RULE_LISTS:
            return _call(obj, tok, names.value(tok, 0.1, batch_ok=False))
        return _call(obj, tok)
    if fam == "layer":
        layers = [l[0] for l in ctx.wd["archs"][aid]["layers"]]
        if tok == "based_on":
            return _call(obj, "based_on", {"$obj": aid})
        if tok == "are_named:str":
            return _call(obj, "are_named", W.pick(rng, layers))
        if tok == "are_named:list":
            return _call(obj, "are_named", rng.sample(layers, 2))
        return _call(obj, tok)
    if tok == "from_file":
        return _call(obj, tok, {"$puml": W.pick(rng, sorted(ctx.wd["pumls"]))})
    if tok == "with_base_module":
        pu = ctx.wd["pumls"][W.pick(rng, sorted(ctx.wd["pumls"]))]
        return _call(obj, tok, pu["base"])
    return _call(obj, tok)


def chain_seq(ctx, client, counter, toks=None, fam=None, mid_apply=0.0, no=None):
    if toks is None:
        if no is None:
            no = (counter * P1) % SEQ_TOTAL
        fam, toks = decode_seq(no)
        tag = f"seq:{no}"
    else:
        tag = None
    if fam == "layer" and not ctx.wd["archs"]:
        return None, None
    if fam == "diagram" and not ctx.wd["pumls"]:
        return None, None
    ev, names = ctx.target()
    aid = ctx.arch() if fam == "layer" else None
    obj = ctx.obj({"module": "M", "layer": "L", "diagram": "D"}[fam], client)
    new = {"op": "new", "obj": obj, "cls": {"module": "Rule", "layer": "LayerRule",
                                            "diagram": "DiagramRule"}[fam]}
    if fam == "diagram":
        new["kw"] = {"should_only_rule": ctx.rng.random() < 0.5}
    if fam == "layer":
        ev = ctx.ev_for_cfg(ctx.wd["archs"][aid]["cfg"])
    calls = [_tok_call(ctx, obj, fam, t, names, aid) for t in toks]
    return _finish(new, calls, ev, ctx.rng, mid_apply), tag


def chain_undef(ctx, client):
    rng = ctx.rng
    r = rng.random()
    if r < 0.6:
        shape = W.pick(rng, MODULE_SHAPES)
        if rng.random() < 0.35:  # alias rules with batches deserve extra weight
            shape = (W.pick(rng, ["are_named", "are_sub_modules_of"]), "should_not",
                     W.pick(rng, list(RULE_ANY)), None)
        new, calls, ev = module_chain(ctx, ctx.obj("M", client), shape, rng.choice([0.3, 0.6]))
    elif r < 0.78:
        built = layer_chain(ctx, ctx.obj("L", client), W.pick(rng, LAYER_SHAPES),
                            prefer_typo=rng.random() < 0.7, p_unknown_layer=0.1)
        if built is None:
            return None, None
        new, calls, ev = built
    else:
        built = diagram_chain(ctx, ctx.obj("D", client), W.pick(rng, DIAGRAM_SHAPES))
        if built is None:
            return None, None
        new, calls, ev = built
        if rng.random() < 0.5:
            ev = W.pick(rng, sorted(ctx.evs))  # e.g. a level-limited evaluable
    return _finish(new, calls, ev, rng), None


def chain_reuse(ctx, client):
    """A complete chain is evaluated, then receives further calls (or meets another evaluable)
    and is evaluated again: whatever the first evaluation left behind on the object must not
    let an ill-formed or undefined second specification through."""
    rng = ctx.rng
    fam = W.pick(rng, ["module", "module", "module", "layer", "diagram"])
    if fam == "module":
        shape = W.pick(rng, MODULE_SHAPES)
        if shape[3] is None and rng.random() < 0.7:
            shape = (shape[0], "should_not", shape[2], None)
        new, calls, ev = module_chain(ctx, ctx.obj("M", client), shape, 0.0)
    elif fam == "layer":
        built = layer_chain(ctx, ctx.obj("L", client), W.pick(rng, LAYER_SHAPES),
                            avoid_typo=rng.random() < 0.5)
        if built is None:
            return None, None
        new, calls, ev = built
    else:
        good = [p for p in sorted(ctx.wd["pumls"]) if p != "pbad"]
        if not good:
            return None, None
        built = diagram_chain(ctx, ctx.obj("D", client), W.pick(rng, DIAGRAM_SHAPES), pid=W.pick(rng, good))
        new, calls, ev = built
    obj = new["obj"]
    names = Names(rng, ctx.wd["predicted"][ctx.evs[ev]], ctx.wd["universe"],
                  ctx.wd["cfgs"][ctx.evs[ev]].get("kw"))
    ops = [new] + calls + [{"op": "apply", "obj": obj, "ev": ev}]
    for _ in range(rng.randint(1, 2)):
        r = rng.random()
        ev2 = ev
        extra = []
        if r < 0.2:
            ev2 = W.pick(rng, sorted(ctx.evs))  # same rule object, another architecture
        elif fam == "module":
            if r < 0.4:
                extra = [_call(obj, W.pick(rng, list(RULE_VERBS)))]
            elif r < 0.55:
                kind = W.pick(rng, list(RULE_LISTS))
                extra = [_call(obj, kind, names.value(kind, 1.0, batch_ok=False))]  # current side
            elif r < 0.7:
                kind = W.pick(rng, list(RULE_LISTS))
                extra = [_call(obj, "modules_that"), _call(obj, kind, names.value(kind, 0.8))]
            elif r < 0.85:
                kind = W.pick(rng, list(RULE_LISTS))
                extra = [_call(obj, W.pick(rng, list(RULE_IMPORTS))),
                         _call(obj, kind, names.value(kind, 0.8))]
            else:
                extra = [_call(obj, W.pick(rng, list(RULE_ANY)))]
        elif fam == "layer":
            if r < 0.45:
                extra = [_call(obj, W.pick(rng, list(LAYER_VERBS)))]
            elif r < 0.6:
                extra = [_call(obj, "layers_that")]
            elif r < 0.75:
                extra = [_call(obj, W.pick(rng, list(LAYER_ANY)))]
            elif r < 0.82:
                aid0 = next((c["a"][0]["$obj"] for c in calls if c.get("m") == "based_on"), None)
                arch0 = ctx.wd["archs"].get(aid0) if aid0 else None
                extra = [_call(obj, "are_named", _unknown_layer(rng, [l[0] for l in arch0["layers"]])
                               if arch0 else "LX")]
            elif r < 0.93:
                # one more layer on the current side: a defined one - possibly the one whose
                # definition holds a module that no architecture contains
                aid = next((c["a"][0]["$obj"] for c in calls if c.get("m") == "based_on"), None)
                arch = ctx.wd["archs"].get(aid) if aid else None
                if arch:
                    layer = arch.get("typo_layer") if arch.get("typo_layer") and rng.random() < 0.7 \
                        else W.pick(rng, [l[0] for l in arch["layers"]])
                    extra = [_call(obj, "are_named", layer)]
            else:
                extra = [_call(obj, W.pick(rng, list(LAYER_ACCESS)))]
        else:
            if r < 0.6 and "pbad" in ctx.wd["pumls"]:
                extra = [_call(obj, "from_file", {"$puml": "pbad"})]
            else:
                pu = ctx.wd["pumls"][W.pick(rng, sorted(ctx.wd["pumls"]))]
                extra = [_call(obj, "with_base_module", pu["base"] + ".nosuch")]
        ops += extra + [{"op": "apply", "obj": obj, "ev": ev2}]
    return ops, None


def chain_long(ctx, client):
    rng = ctx.rng
    fam = W.pick(rng, ["module", "module", "layer", "diagram"])
    vocab = {"module": RULE_VOCAB, "layer": LRULE_VOCAB, "diagram": DIAG_VOCAB}[fam]
    toks = [W.pick(rng, vocab) for _ in range(rng.randint(6, 9))]
    if fam == "layer" and rng.random() < 0.8:
        toks[0:2] = ["based_on", "layers_that"]
    if fam == "module" and rng.random() < 0.8:
        toks[0] = "modules_that"
    return chain_seq(ctx, client, 0, toks=toks, fam=fam, mid_apply=0.3)


def scan_entry(ctx, counter, evname, no=None):
    if no is None:
        no = (counter * P3) % ENTRY_TOTAL
    kw, place, via = decode_entry(no)
    tree = ctx.wd["tree"]
    sub = sorted(d for d in tree.pkg_depth if d != tree.root)
    root, module = tree.root, tree.root
    if place == "below" and sub:
        module = W.pick(ctx.rng, sub)
    elif place == "outside_parent" and sub:
        root, module = W.pick(ctx.rng, sub), tree.root
    elif place == "outside_sibling" and len(sub) >= 2:
        a, b = ctx.rng.sample(sub, 2)
        if not (b == a or b.startswith(a + "/")):
            root, module = a, b
    mk = False
    if place == "outside_sibling" and ctx.rng.random() < 0.4:
        # a directory next to the root package whose name merely continues the root's name
        # ("proj" / "proj_legacy"): outside root_path although its path starts with the same
        # characters; often an exclusion pattern of the request matches that very directory.
        # (It lies outside every root of the world, so no other scan sees it.)
        word = W.pick(ctx.rng, ["legacy", "old", "x"])
        root, module, mk = tree.root, tree.root + "_" + word, True
        r = ctx.rng.random()
        kw = dict(kw)
        if kw.get("exclusions"):
            kw["exclusions"] = [f"*{word}*"]
        elif kw.get("regex_exclusions"):
            kw["regex_exclusions"] = [f".*_{word}.*"]
        elif r < 0.6 and "exclusions" not in kw and "regex_exclusions" not in kw:
            kw["exclusions"] = [f"*_{word}*"]
    cfg = {"tree": tree.name, "root": root, "module": module, "via": via, "kw": kw}
    if mk:
        cfg["mk_sibling"] = True
    return cfg, f"entry:{no}"


# --- systematic sweeps --------------------------------------------------------------------
SWEEP_PER_PLAN = 16
N_MUT_PLANS = (len(MUT_SPACE) + SWEEP_PER_PLAN - 1) // SWEEP_PER_PLAN
N_ENTRY_PLANS = (ENTRY_TOTAL + SWEEP_PER_PLAN - 1) // SWEEP_PER_PLAN
N_SEQ_PLANS = (SEQ_TOTAL + SWEEP_PER_PLAN - 1) // SWEEP_PER_PLAN
SEQ_SWEEP_BASE = 1_000_000  # plan indices SEQ_SWEEP_BASE .. +N_SEQ_PLANS walk every sequence <= 5


def sweep_of(index):
    """(kind, first member number) if `index` is a sweep plan, else None."""
    if index < N_MUT_PLANS:
        return "mut", index * SWEEP_PER_PLAN
    if index < N_MUT_PLANS + N_ENTRY_PLANS:
        return "entry", (index - N_MUT_PLANS) * SWEEP_PER_PLAN
    if SEQ_SWEEP_BASE <= index < SEQ_SWEEP_BASE + N_SEQ_PLANS:
        return "seq", (index - SEQ_SWEEP_BASE) * SWEEP_PER_PLAN
    return None


# --- plan ---------------------------------------------------------------------------------
def generate(seed, index):
    wd = gen_world(f"{seed}:C13:{index // GROUP}")
    rng = random.Random(f"{seed}:C13:{index}:session")
    tree, cfgs = wd["tree"], dict(wd["cfgs"])
    setup = []
    evs = {}
    for cid in sorted(wd["cfgs"]):
        op = {"op": "scan", "ev": f"E{len(evs)}", "cfg": cid}
        if rng.random() < 0.5:
            order = {}
            for d in sorted(tree.dirs):
                kids = tree.children(d)
                rng.shuffle(kids)
                order[f"{tree.name}/{d}"] = kids
            op["order"] = order
        evs[op["ev"]] = cid
        setup.append(op)
    from .plan_c15 import compile_arch

    for aid in sorted(wd["archs"]):
        arch = [(n, (c[0], c[1])) for n, c in wd["archs"][aid]["layers"]]
        setup.extend(compile_arch(aid, arch, None))
    ctx = Ctx(rng, wd, evs)
    sweep = sweep_of(index)
    nclients = 4 if sweep else rng.randint(1, 4)
    clients = [[] for _ in range(nclients)]
    cover = []
    kinds = {}
    for c in range(nclients):
        for j in range(4 if sweep else rng.randint(1, 4)):
            counter = (index * 4 + c) * 4 + j
            roll = rng.random()
            tag = None
            if sweep:
                kind, first = sweep
                no = first + c * 4 + j
                size = {"mut": len(MUT_SPACE), "entry": ENTRY_TOTAL, "seq": SEQ_TOTAL}[kind]
                if no >= size:
                    continue
                if kind == "mut":
                    ops, tag = chain_mut(ctx, c, counter, no=no)
                elif kind == "seq":
                    ops, tag = chain_seq(ctx, c, counter, no=no)
                else:
                    cfg, tag = scan_entry(ctx, counter, None, no=no)
                    cid = f"x{len(cfgs)}"
                    cfgs[cid] = cfg
                    ops = [{"op": "scan", "ev": f"X{len(cfgs)}", "cfg": cid}]
                kind = "sweep-" + kind
            elif roll < 0.30:
                kind = "mut"
                ops, tag = chain_mut(ctx, c, counter)
            elif roll < 0.58:
                kind = "seq"
                ops, tag = chain_seq(ctx, c, counter)
            elif roll < 0.78:
                kind = "undef"
                ops, tag = chain_undef(ctx, c)
            elif roll < 0.88:
                kind = "reuse"
                ops, tag = chain_reuse(ctx, c)
            elif roll < 0.95:
                kind = "entry"
                cfg, tag = scan_entry(ctx, counter, None)
                cid = f"x{len(cfgs)}"
                cfgs[cid] = cfg
                ops = [{"op": "scan", "ev": f"X{len(cfgs)}", "cfg": cid}]
            else:
                kind = "long"
                ops, tag = chain_long(ctx, c)
            if not ops:
                continue
            kinds[kind] = kinds.get(kind, 0) + 1
            if tag:
                cover.append(tag)
            clients[c].extend(ops)
    # F11: read-only observations (str(rule) - what a print, a log line or a test id does) at
    # seeded places inside the chains; an observation must never turn an ill-formed or undefined
    # specification into one that yields a verdict.  Own PRNG stream: the chains stay as they are.
    orng = random.Random(f"{seed}:C13:{index}:observe")
    n_observed = 0
    if orng.random() < 0.5:
        for c in range(nclients):
            out = []
            for op in clients[c]:
                if op["op"] == "apply" and orng.random() < 0.25:
                    out.append({"op": "str", "obj": op["obj"]})
                    n_observed += 1
                out.append(op)
                if op["op"] == "call" and orng.random() < 0.12:
                    out.append({"op": "str", "obj": op["obj"]})
                    n_observed += 1
            clients[c] = out
    if n_observed:
        kinds["observed"] = n_observed
    # F12 / F15 as predecessors: an evaluation (of a twin object carrying the same chain) or a scan of
    # the same request is cut short right before the real one - cancelled at a seeded line inside the
    # library, or failed by an I/O error (diagram file / k-th listing / k-th file).  The interrupted
    # request itself is never judged; what comes after it on the same evaluable is judged as always.
    # Own PRNG stream: the chains stay as they are.
    xrng = random.Random(f"{seed}:C13:{index}:interrupt")
    n_interrupted = 0
    if not sweep and xrng.random() < 0.3:
        def _cut(is_diagram, is_scan):
            if is_scan:
                if xrng.random() < 0.5:
                    return {"abort_at": int(round(10 ** (xrng.random() * 4.3)))}
                return {"io_fault": {"kind": xrng.choice(["listdir", "open"]),
                                     "at": int(round(10 ** (xrng.random() * 1.3))),
                                     "err": xrng.choice(["EIO", "EACCES", "EMFILE"])}}
            if is_diagram and xrng.random() < 0.5:
                return {"io_fault": {"kind": "open", "at": 1, "err": xrng.choice(["EIO", "EACCES"])}}
            return {"abort_at": int(round(10 ** (xrng.random() * 3.6)))}

        new_setup = []
        scan_cfgs = sorted({op["cfg"] for op in setup if op["op"] == "scan"})
        for op in setup:
            if op["op"] == "scan" and xrng.random() < 0.5:
                # the request that is cut short is this one or another one of the session
                new_setup.append({"op": "scan", "ev": "I" + op["ev"],
                                  "cfg": op["cfg"] if xrng.random() < 0.5 else xrng.choice(scan_cfgs),
                                  **({"order": op["order"]} if op.get("order") else {}), **_cut(False, True)})
                n_interrupted += 1
            new_setup.append(op)
        if len(new_setup) > len(setup):
            # reference scans of every request before anything is cut short: what "absent from the
            # architecture" means is also decided by these (ref=True: nothing is evaluated on them)
            new_setup = [{"op": "scan", "ev": "REF" + cid, "cfg": cid, "ref": True} for cid in scan_cfgs] + new_setup
        setup = new_setup
        for c in range(nclients):
            out, built, cls_of = [], {}, {}
            for op in clients[c]:
                if op["op"] == "new":
                    built[op["obj"]] = [op]
                    cls_of[op["obj"]] = op["cls"]
                elif op["op"] == "call" and op["obj"] in built:
                    built[op["obj"]].append(op)
                elif (op["op"] == "apply" and op["obj"] in built and "abort_at" not in op
                      and xrng.random() < 0.3):
                    twin = op["obj"] + "i"
                    for b in built[op["obj"]]:
                        out.append(dict(b, obj=twin))
                    out.append({"op": "apply", "obj": twin, "ev": op["ev"],
                                **_cut(cls_of[op["obj"]] == "DiagramRule", False)})
                    n_interrupted += 1
                out.append(op)
            clients[c] = out
    if n_interrupted:
        kinds["interrupted_predecessor"] = n_interrupted
    clients[0] = setup + clients[0]
    schedule = [0] * len(setup)
    rest = []
    for c, ops in enumerate(clients):
        rest.extend([c] * (len(ops) - (len(setup) if c == 0 else 0)))
    if rng.random() < 0.85:
        rng.shuffle(rest)
    schedule += rest
    world = {"trees": {tree.name: tree.spec()},
             "pumls": {p: v["text"] for p, v in wd["pumls"].items()}}
    return {
        "prop": "C13", "seed": seed, "index": index, "world_group": index // GROUP,
        "world": world, "cfgs": cfgs, "clients": clients, "schedule": schedule,
        "meta": {"chain_kinds": kinds, "cover": cover, "n_setup": len(setup),
                 "interleaved": rest != sorted(rest),
                 "pumls": {p: {"tags": v["tags"], "components": v["components"]}
                           for p, v in wd["pumls"].items()},
                 "spaces": {"mut": len(MUT_SPACE), "seq": SEQ_TOTAL, "entry": ENTRY_TOTAL}},
    }
