"""CLI: check <C13|C15|C16|selftest> [--tier quick|thorough]  |  check --replay <file>"""
import argparse
import os
import sys


def main(argv=None):
    ap = argparse.ArgumentParser(prog="check")
    ap.add_argument("target", nargs="?")
    ap.add_argument("--tier", default=os.environ.get("VERIF_TIER", "quick"),
                    choices=["quick", "thorough"])
    ap.add_argument("--replay")
    ap.add_argument("--seed", type=int, default=int(os.environ.get("VERIF_SEED", "20260929")))
    args = ap.parse_args(argv)
    from sim import coordinator

    try:
        if args.replay:
            return coordinator.replay(args.replay)
        if args.target == "selftest":
            from sim import selftest

            return selftest.main(args.seed)
        if args.target not in coordinator.TIERS:
            ap.error("target must be one of C13, C15, C16, selftest")
        return coordinator.check(args.target, args.tier, args.seed)
    except coordinator.HarnessError as e:
        print(f"HARNESS-ERROR: {e}")
        return coordinator.EXIT_HARNESS
    finally:
        coordinator.sweep_scratch()


if __name__ == "__main__":
    sys.exit(main())
