"""Determinism self-test of the simulator (DESIGN.md section 2.4).

For each property: the same plan indices are generated and executed (a) twice under the same
interpreter hash seed in two separate worker processes, with different batch splits (so the
two workers have different in-process histories at each plan), and (b) under a second hash
seed.  (a) must give byte-identical complete event logs; (b) must give identical *plans*
(generation is independent of the interpreter) and really different set iteration orders.
A mismatch is a harness error (exit 3), never a violation.
"""
import os
import sys
import time

from . import coordinator as C


def _collect(worker, prop, seed, indices, batch):
    out = {}
    for lo in range(0, len(indices), batch):
        resp = worker.request({"t": "gen", "prop": prop, "seed": seed,
                               "indices": indices[lo:lo + batch]})
        for r in resp["results"]:
            out[r["index"]] = r
    return out


def _indices(prop, n):
    """Half of the sample from the start of the index range, half from behind the systematic sweeps
    (C13, C16: the first few hundred / thousand plans are sweep plans; the seeded random families -
    caller-owned lists, sentences started over, requests cut short - begin after them)."""
    base = 0
    if prop == "C16":
        from . import plan_c16
        base = plan_c16.n_sweep_plans()
    elif prop == "C13":
        from . import plan_c13
        base = plan_c13.N_MUT_PLANS + plan_c13.N_ENTRY_PLANS
    if not base:
        return list(range(n))
    return list(range(n // 2)) + list(range(base, base + n - n // 2))


def main(seed, n=None):
    n = int(os.environ.get("VERIF_SELFTEST_PLANS", n or 300))
    bad = 0
    t0 = time.time()
    for prop in ("C13", "C15", "C16"):
        indices = _indices(prop, n)
        hs_a = C.hash_seed_for(seed, 101, 0)
        hs_b = C.hash_seed_for(seed, 102, 0)
        w1, w2, w3 = C.WorkerProc(hs_a), C.WorkerProc(hs_a), C.WorkerProc(hs_b)
        try:
            r1 = _collect(w1, prop, seed, indices, 50)
            r2 = _collect(w2, prop, seed, list(reversed(indices)), 7)
            r3 = _collect(w3, prop, seed, indices, 50)
        finally:
            for w in (w1, w2, w3):
                w.close()
        same_orders = w1.hello["canary"] == w3.hello["canary"]
        nondet = [i for i in indices if r1[i]["full_digest"] != r2[i]["full_digest"]]
        plan_dep = [i for i in indices if r1[i]["plan_digest"] != r3[i]["plan_digest"]]
        print(f"[selftest] {prop}: {n} plans x 2 processes (hash seed {hs_a}, different "
              f"in-process histories): {len(nondet)} nondeterministic logs; plan digests vs "
              f"hash seed {hs_b}: {len(plan_dep)} differ; set orders differ: {not same_orders}",
              flush=True)
        if nondet:
            print(f"HARNESS-ERROR: nondeterministic event log for {prop} plan indices {nondet[:10]}")
            bad += 1
        if plan_dep:
            print(f"HARNESS-ERROR: plan generation depends on the hash seed: {prop} {plan_dep[:10]}")
            bad += 1
        if same_orders:
            print("HARNESS-ERROR: the two hash seeds give the same set iteration order")
            bad += 1
    # whole-run determinism: same VERIF_SEED at two worker counts (different assignment of plans
    # to interpreters, different hash seeds, different in-process histories) -> same aggregate of
    # the comparable logs; done for several seeds
    m = int(os.environ.get("VERIF_SELFTEST_RUN_PLANS", 400))
    for prop in ("C13", "C15", "C16"):
        for s in (seed, seed + 1, seed + 2):
            aggs = []
            for workers in (4, 16):
                run = C.Run(prop, "quick", s, workers=workers, plans=m)
                run.indices = _indices(prop, m)
                run.n_plans = m
                out = run.run()
                if out["errors"]:
                    print(f"HARNESS-ERROR: {out['errors'][:2]}")
                    bad += 1
                aggs.append((out["cmp_aggregate"], out["plans_done"], len(out["candidates"])))
            ok = aggs[0] == aggs[1] and aggs[0][1] == m
            print(f"[selftest] {prop} VERIF_SEED={s}: {m} plans at 4 and 16 workers: aggregate "
                  f"{aggs[0][0]} / {aggs[1][0]} {'equal' if ok else 'DIFFER'}", flush=True)
            if not ok:
                print(f"HARNESS-ERROR: run-level nondeterminism for {prop} seed {s}: {aggs}")
                bad += 1
    print(f"[selftest] done in {time.time() - t0:.1f}s")
    return C.EXIT_HARNESS if bad else C.EXIT_OK
