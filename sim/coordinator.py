"""Coordinator: seeded search over plans, cross-interpreter comparison, minimisation,
replay files, evidence, known findings.  Runs with PYTHONHASHSEED=0 (see ../check)."""
import copy
import hashlib
import json
import os
import queue
import random
import subprocess
import sys
import threading
import time

HERE = os.path.dirname(os.path.dirname(os.path.abspath(__file__)))
WORKER = os.path.join(HERE, "sim", "worker.py")
PY = os.environ.get("VERIF_PYTHON", "/venv/bin/python")
SRC = os.environ.get("PYTESTARCH_SRC", "/repo/src")

EXIT_OK, EXIT_VIOLATION, EXIT_HARNESS = 0, 1, 3

T_START = time.time()
# seconds after process start by which everything (search, confirmation, minimisation, evidence)
# should be over: below the timeouts registered in MANIFEST.json, so that a run that found
# something is never killed before it has said so
DEADLINE = {"quick": {"C13": 800, "C15": 800, "C16": 800},
            "thorough": {"C13": 3250, "C15": 3250, "C16": 2850}}


def time_left(prop, tier):
    return float(os.environ.get("VERIF_DEADLINE_S", DEADLINE[tier][prop])) - (time.time() - T_START)


class HarnessError(Exception):
    pass


def canon(obj):
    return json.dumps(obj, sort_keys=True, separators=(",", ":"), ensure_ascii=True)


def digest(obj):
    return hashlib.sha256(canon(obj).encode()).hexdigest()[:16]


# ------------------------------------------------------------------------------------
_PIDS = []  # scratch dir of every worker interpreter started by this coordinator (swept at exit)


def sweep_scratch():
    import shutil

    from . import fsseam

    for path in _PIDS:
        if os.path.basename(path).startswith("PVS"):
            shutil.rmtree(path, ignore_errors=True)


class WorkerProc:
    def __init__(self, hashseed):
        env = dict(os.environ)
        env["PYTHONHASHSEED"] = str(hashseed)
        env["PYTHONDONTWRITEBYTECODE"] = "1"
        env["PYTESTARCH_SRC"] = SRC
        self.hashseed = hashseed
        self.history = []  # plan indices executed by this interpreter, in order
        self.batches = []  # the same, as the requests were sent (one list per request)
        self.proc = subprocess.Popen(
            [PY, "-X", "faulthandler", WORKER], stdin=subprocess.PIPE, stdout=subprocess.PIPE,
            stderr=subprocess.PIPE, env=env, text=True, bufsize=1, cwd=HERE)
        self._stderr = []
        self._t = threading.Thread(target=self._drain, daemon=True)
        self._t.start()
        line = self.proc.stdout.readline()
        if not line:
            raise HarnessError(f"worker (hash seed {hashseed}) did not start: {self.stderr_text()}")
        self.hello = json.loads(line)
        _PIDS.append(self.hello["scratch"])

    def _drain(self):
        for line in self.proc.stderr:
            self._stderr.append(line)
            if len(self._stderr) > 400:
                del self._stderr[:200]

    def stderr_text(self):
        time.sleep(0.05)
        return "".join(self._stderr[-60:])

    def request(self, req):
        try:
            self.proc.stdin.write(json.dumps(req) + "\n")
            self.proc.stdin.flush()
            line = self.proc.stdout.readline()
        except (BrokenPipeError, OSError) as e:
            raise HarnessError(f"worker pipe broke ({e}): {self.stderr_text()}")
        if not line:
            rc = self.proc.wait()
            raise HarnessError(
                f"worker (hash seed {self.hashseed}) died, exit {rc}; request "
                f"{canon(req)[:200]}; stderr:\n{self.stderr_text()}")
        return json.loads(line)

    def close(self):
        try:
            self.proc.stdin.write('{"t":"quit"}\n')
            self.proc.stdin.flush()
            self.proc.stdin.close()
            self.proc.wait(timeout=10)
        except Exception:  # noqa: BLE001
            self.proc.kill()
            self.proc.wait()


class ReplayPool:
    """Fresh interpreters on demand, one per hash seed, for replay and minimisation."""

    def __init__(self):
        self.w = {}

    def run(self, plan, hashseed, fresh=False):
        if fresh and hashseed in self.w:
            self.w.pop(hashseed).close()
        if hashseed not in self.w:
            self.w[hashseed] = WorkerProc(hashseed)
        return self.w[hashseed].request({"t": "plan", "plan": plan})["results"][0]

    def close(self):
        for w in self.w.values():
            w.close()
        self.w = {}


# ------------------------------------------------------------------------------------
def merge_stats(acc, st):
    for k, v in st.items():
        if isinstance(v, bool):
            acc[k] = acc.get(k, 0) + int(v)
        elif isinstance(v, (int, float)):
            acc[k] = acc.get(k, 0) + v
        elif isinstance(v, dict):
            merge_stats(acc.setdefault(k, {}), v)
        elif isinstance(v, list):
            cur = acc.setdefault(k, [])
            for item in v:
                if item not in cur and len(cur) < 50:
                    cur.append(item)
    return acc


def hash_seed_for(seed, slot, generation):
    h = hashlib.sha256(f"{seed}:hs:{slot}:{generation}".encode()).digest()
    return 1 + int.from_bytes(h[:4], "big") % (2**32 - 2)


def first_divergence(ca, cb):
    """Locate the first differing element of two comparable logs."""
    for k in ("iso_scans", "iso_outcomes"):
        for key in sorted(set(ca[k]) | set(cb[k])):
            if ca[k].get(key) != cb[k].get(key):
                return {"where": k, "key": key, "a": ca[k].get(key), "b": cb[k].get(key)}
    for ea, eb in zip(ca["events"], cb["events"]):
        if ea != eb:
            return {"where": "event", "step": ea[0], "op": ea[2], "a": ea[3], "b": eb[3]}
    if len(ca["events"]) != len(cb["events"]):
        return {"where": "length", "a": len(ca["events"]), "b": len(cb["events"])}
    return None


def divergence_sig(prop, div):
    def cls(x):
        return x[0] if isinstance(x, list) and x else str(x)
    if div["where"] == "event":
        a, b = sorted([cls(div["a"]), cls(div["b"])])
        return f"{prop}/I4/{div['op']}/{a}-vs-{b}"
    if div["where"] in ("iso_scans", "iso_outcomes"):
        a, b = sorted([cls(div["a"]), cls(div["b"])])
        return f"{prop}/I4/{div['where']}/{a}-vs-{b}"
    return f"{prop}/I4/{div['where']}"


# ------------------------------------------------------------------------------------
class Candidate:
    def __init__(self, sig, inv, plan_index, hashseeds, detail):
        self.sig, self.inv, self.index, self.hashseeds, self.detail = (
            sig, inv, plan_index, hashseeds, detail)


def signatures_of(plan, hashseeds, pool, fresh=False):
    """Execute `plan` under the given hash seeds; return {signature: detail}."""
    outs = [pool.run(plan, h, fresh=fresh) for h in hashseeds]
    sigs = {}
    for o in outs:
        for v in o["violations"]:
            sigs.setdefault(v["sig"], v)
    for i in range(1, len(outs)):
        if not CROSS_SEED_IS_VIOLATION.get(plan["prop"]):
            break
        if outs[i]["cmp_digest"] != outs[0]["cmp_digest"]:
            div = first_divergence(outs[0]["comparable"], outs[i]["comparable"])
            if div:
                div["hashseeds"] = [hashseeds[0], hashseeds[i]]
                sigs.setdefault(divergence_sig(plan["prop"], div), {"inv": "I4", "detail": div})
    return sigs, outs


# -- history dependence (I5) ---------------------------------------------------------------
def history_divergence(plans, hashseed):
    """Execute `plans` in order in ONE fresh interpreter and the last plan alone in another
    fresh interpreter of the same hash seed.  Returns the first divergence of the last plan's
    comparable log (dict) or None.  This is the whole I5 predicate: what a session observes
    must not depend on which sessions the interpreter ran before."""
    w1 = WorkerProc(hashseed)
    try:
        after = w1.request({"t": "plans", "plans": plans, "want_log_last": True})["results"][-1]
    finally:
        w1.close()
    w2 = WorkerProc(hashseed)
    try:
        alone = w2.request({"t": "plan", "plan": plans[-1]})["results"][0]
    finally:
        w2.close()
    if after["cmp_digest"] == alone["cmp_digest"]:
        return None
    return first_divergence(alone["comparable"], after["comparable"]) or {"where": "digest"}


def history_violations(plans, hashseed):
    """In-process violations of the LAST plan when `plans` run in order in one fresh interpreter."""
    w = WorkerProc(hashseed)
    try:
        last = w.request({"t": "plans", "plans": plans, "want_log_last": True})["results"][-1]
    finally:
        w.close()
    return {v["sig"]: v for v in last["violations"]}


def request_history_violations(prop, seed, batches, hashseed):
    """Re-send the very requests an interpreter received (same plan indices, same request
    boundaries, same hash seed) to a fresh interpreter; in-process violations of the last
    request.  Used for violations that depend on where the allocator places objects (a cache
    keyed by id() of a dead object): the explicit-plan replay allocates differently."""
    w = WorkerProc(hashseed)
    try:
        last = None
        for b in batches:
            last = w.request({"t": "gen", "prop": prop, "seed": seed, "indices": b})["results"]
    finally:
        w.close()
    out = {}
    for r in last or []:
        for v in r["violations"]:
            v = dict(v)
            v["plan_index"] = r["index"]
            out.setdefault(v["sig"], v)
    return out


def minimise_history_violation(plans, hashseed, sig, budget_s=180):
    t0 = time.time()
    tests = 0
    pred, last = list(plans[:-1]), plans[-1]
    chunk = max(1, len(pred) // 2)
    while pred and time.time() - t0 < budget_s:
        i = 0
        progressed = False
        while i < len(pred) and time.time() - t0 < budget_s:
            cand = pred[:i] + pred[i + chunk:]
            tests += 1
            if sig in history_violations(cand + [last], hashseed):
                pred, progressed = cand, True
            else:
                i += chunk
        if chunk == 1 and not progressed:
            break
        chunk = max(1, chunk // 2)
    return pred + [last], tests


def i5_sig(prop, div):
    return divergence_sig(prop, div).replace("/I4/", "/I5/")


def minimise_history(plans, hashseed, sig, prop, budget_s=180):
    """ddmin over the predecessor sessions (the last plan is the observed one)."""
    t0 = time.time()
    tests = 0
    pred, last = list(plans[:-1]), plans[-1]
    chunk = max(1, len(pred) // 2)
    while chunk >= 1 and pred and time.time() - t0 < budget_s:
        i = 0
        progressed = False
        while i < len(pred) and time.time() - t0 < budget_s:
            cand = pred[:i] + pred[i + chunk:]
            tests += 1
            div = history_divergence(cand + [last], hashseed)
            if div is not None and i5_sig(prop, div) == sig:
                pred, progressed = cand, True
            else:
                i += chunk
        if chunk == 1 and not progressed:
            break
        chunk = max(1, chunk // 2) if chunk > 1 else 1
        if chunk == 1 and not progressed and len(pred) <= 1:
            break
    return pred + [last], tests


def confirm_history(prop, seed, where, histories):
    """Rebuild the history of the interpreter that produced an observation and test the I5
    predicate on it. Returns (plans, hashseed, divergence) or None."""
    from . import generators

    hist = histories.get(tuple(where["wid"]))
    if hist is None:
        return None
    indices = hist[: where["pos"] + 1]
    if not indices or indices[-1] != where["index"]:
        return None
    plans = [generators.generate(prop, seed, i) for i in indices]
    div = history_divergence(plans, where["hs"])
    if div is None:
        return None
    return plans, where["hs"], div


# -- plan reduction (delta debugging over the explicit plan) -----------------------------
def _drop_ops(plan, client, lo, hi):
    p = copy.deepcopy(plan)
    del p["clients"][client][lo:hi]
    seen = 0
    sched = []
    for c in p["schedule"]:
        if c == client:
            if not (lo <= seen < hi):
                sched.append(c)
            seen += 1
        else:
            sched.append(c)
    p["schedule"] = sched
    return p


def _refs(op):
    """Object ids an op refers to through its arguments."""
    out = set()

    def walk(a):
        if isinstance(a, dict):
            if "$obj" in a:
                out.add(a["$obj"])
            for v in a.values():
                walk(v)
        elif isinstance(a, list):
            for v in a:
                walk(v)

    walk(op.get("a"))
    walk(op.get("kw"))
    return out


def _units(plan):
    """Removal units for plans with atomic builds: ('op', client, idx) for evaluation /
    observation / scan steps, ('obj', id) for an object with all its users."""
    units = []
    objs = []
    for c, ops in enumerate(plan["clients"]):
        for j, op in enumerate(ops):
            if op["op"] in ("apply", "str", "getitem", "modules", "mapping", "scan", "drop"):
                units.append(("op", c, j, canon(op)))
            elif op["op"] == "new" and op["obj"] not in objs:
                objs.append(op["obj"])
    units.sort(key=lambda u: (-u[1], -u[2]))  # back to front keeps indices valid per pass
    return [("obj", o) for o in reversed(objs)] + units


def _drop_unit(plan, unit):
    p = copy.deepcopy(plan)
    if unit[0] == "op":
        _, c, j, what = unit
        if c >= len(p["clients"]) or j >= len(p["clients"][c]) or canon(p["clients"][c][j]) != what:
            # the plan changed since the units were listed (an object went, indices moved):
            # never cut into a builder chain by accident
            return None
        return _drop_ops(p, c, j, j + 1)
    dead = {unit[1]}
    grew = True
    while grew:  # objects built from a dead object die with it
        grew = False
        for ops in p["clients"]:
            for op in ops:
                if op.get("obj") not in dead and op["op"] in ("new", "call") and _refs(op) & dead:
                    dead.add(op["obj"])
                    grew = True
    for c in range(len(p["clients"])):
        keep = [k for k, op in enumerate(p["clients"][c]) if op.get("obj") not in dead]
        drop = [k for k in range(len(p["clients"][c])) if k not in keep]
        for k in reversed(drop):
            p = _drop_ops(p, c, k, k + 1)
    return p


def _prune(plan):
    """Drop plan parts nothing refers to any more (isolated entries, cfgs, trees, pumls)."""
    p = plan
    used_keys, used_cfgs, used_pumls = set(), set(), set()
    text = canon(p.get("clients", []))
    for ops in p.get("clients", []):
        for op in ops:
            if op.get("op") == "apply" and op.get("key"):
                used_keys.add(op["key"])
            if op.get("op") == "scan":
                used_cfgs.add(op["cfg"])
    if "isolated" in p:
        p["isolated"] = [e for e in p["isolated"] if e["key"] in used_keys]
        for e in p["isolated"]:
            used_cfgs.add(e["cfg"])
            text += canon(e["build"])
    for name in list(p.get("world", {}).get("pumls", {})):
        if f'"$puml":"{name}"' in text:
            used_pumls.add(name)
    if p.get("cfgs"):
        p["cfgs"] = {k: v for k, v in p["cfgs"].items() if k in used_cfgs}
        used_trees = {c["tree"] for c in p["cfgs"].values()}
        w = p.get("world", {})
        if "trees" in w:
            w["trees"] = {k: v for k, v in w["trees"].items() if k in used_trees}
        if "pumls" in w:
            w["pumls"] = {k: v for k, v in w["pumls"].items() if k in used_pumls}
    return p


def minimise(plan, hashseeds, sig, pool, budget_s=120):
    """ddmin: keep a cut only if the same signature still fails."""
    t0 = time.time()
    tests = [0]

    def fails(p):
        if time.time() - t0 > budget_s:
            return False  # out of time: keep what we have
        tests[0] += 1
        try:
            sigs, _ = signatures_of(p, hashseeds, pool)
        except HarnessError:
            pool.close()
            return False
        return sig in sigs

    cur = _prune(copy.deepcopy(plan))
    if not fails(cur):
        cur = copy.deepcopy(plan)
    # 1. hash seeds: keep as few as possible (one suffices for in-process invariants)
    if len(hashseeds) > 1 and "/I4/" not in sig and budget_s > 0:
        for h in hashseeds:
            sigs, _ = signatures_of(cur, [h], pool)
            if sig in sigs:
                hashseeds = [h]
                break
    changed = True
    while changed and time.time() - t0 < budget_s:
        changed = False
        if cur.get("atomic_builds"):
            # C15: a rule/architecture object is built completely or not at all (its builder
            # calls are the specification that the isolated pass mirrors); evaluations,
            # scans and whole objects (with everything that uses them) are the units.
            for unit in _units(cur):
                if time.time() - t0 > budget_s:
                    break
                cand = _drop_unit(cur, unit)
                cand = _prune(cand) if cand is not None else None
                if cand is not None and fails(cand):
                    cur, changed = cand, True
        else:
            # 2. whole clients
            for c in reversed(range(len(cur["clients"]))):
                n = len(cur["clients"][c])
                if n == 0:
                    continue
                cand = _prune(_drop_ops(cur, c, 0, n))
                if fails(cand):
                    cur, changed = cand, True
            # 3. op chunks per client (ddmin granularity halves)
            for c in range(len(cur["clients"])):
                chunk = max(1, len(cur["clients"][c]) // 2)
                while chunk >= 1 and time.time() - t0 < budget_s:
                    i = 0
                    progressed = False
                    while i < len(cur["clients"][c]):
                        cand = _prune(_drop_ops(cur, c, i, i + chunk))
                        if fails(cand):
                            cur, changed, progressed = cand, True, True
                        else:
                            i += chunk
                    if chunk == 1 and not progressed:
                        break
                    chunk = chunk // 2 if chunk > 1 else (1 if progressed else 0)
        # 4. sequential schedule
        seq = sorted(cur["schedule"])
        if seq != cur["schedule"]:
            cand = copy.deepcopy(cur)
            cand["schedule"] = seq
            if fails(cand):
                cur, changed = cand, True
        # 5. listing orders back to sorted
        for c, ops in enumerate(cur["clients"]):
            for j, op in enumerate(ops):
                if op.get("op") == "scan" and op.get("order"):
                    cand = copy.deepcopy(cur)
                    cand["clients"][c][j].pop("order")
                    if fails(cand):
                        cur, changed = cand, True
        # 6. world: drop files, then import lines
        for tname in sorted(cur.get("world", {}).get("trees", {})):
            files = cur["world"]["trees"][tname]["files"]
            for rel in sorted(files, reverse=True):
                if time.time() - t0 > budget_s:
                    break
                cand = copy.deepcopy(cur)
                del cand["world"]["trees"][tname]["files"][rel]
                if fails(cand):
                    cur, changed = cand, True
                    continue
                lines = files[rel].split("\n")
                if len(lines) > 1:
                    for k in reversed(range(len(lines))):
                        cand = copy.deepcopy(cur)
                        cl = cand["world"]["trees"][tname]["files"][rel].split("\n")
                        del cl[k]
                        cand["world"]["trees"][tname]["files"][rel] = "\n".join(cl)
                        if fails(cand):
                            cur, changed = cand, True
        # 7. isolated build chains are derived from specs; leave them
    return cur, hashseeds, tests[0]


# ------------------------------------------------------------------------------------
def load_known():
    path = os.path.join(HERE, "known_findings.json")
    if not os.path.exists(path):
        return {"open": [], "fixed": []}
    with open(path) as fh:
        return json.load(fh)


def source_fingerprint():
    h = hashlib.sha256()
    n = 0
    for root, dirs, files in os.walk(SRC):
        dirs.sort()
        for f in sorted(files):
            if f.endswith(".py"):
                p = os.path.join(root, f)
                h.update(os.path.relpath(p, SRC).encode())
                with open(p, "rb") as fh:
                    h.update(fh.read())
                n += 1
    out = {"src": SRC, "py_files": n, "sha256": h.hexdigest()}
    try:
        repo = os.path.dirname(SRC)
        out["git_head"] = subprocess.run(["git", "-C", repo, "rev-parse", "HEAD"],
                                         capture_output=True, text=True).stdout.strip()
        out["dirty"] = bool(subprocess.run(["git", "-C", repo, "status", "--porcelain", "--", "src"],
                                           capture_output=True, text=True).stdout.strip())
    except OSError:
        pass
    return out


TIERS = {
    # prop: tier: (plans, batch, replicas k, recycle-after-batches, wall budget seconds)
    "C16": {"quick": (16000, 100, 2, 10, 240), "thorough": (1200000, 200, 2, 12, 1800)},
    "C15": {"quick": (6400, 10, 4, 10, 420), "thorough": (60000, 20, 8, 8, 2900)},
    "C13": {"quick": (12000, 50, 2, 10, 300), "thorough": (100000, 100, 2, 12, 2700)},
}


def extra_ranges(prop, tier):
    """Plan-index ranges run in addition to 0..plans-1 (systematic sweeps that only the
    thorough tier can afford)."""
    if prop == "C13" and tier == "thorough":
        from . import plan_c13

        return [(plan_c13.SEQ_SWEEP_BASE, plan_c13.SEQ_SWEEP_BASE + plan_c13.N_SEQ_PLANS)]
    return []


# A cross-interpreter divergence of the comparable log is a violation only where the property
# says so (C15: "... or on the interpreter's hash seed").  For C13/C16 it is merely counted.
CROSS_SEED_IS_VIOLATION = {"C15": True, "C16": False, "C13": False}


class Run:
    def __init__(self, prop, tier, seed, workers=None, plans=None):
        self.prop, self.tier, self.seed = prop, tier, seed
        n, batch, k, recycle, budget = TIERS[prop][tier]
        self.n_plans = int(os.environ.get("VERIF_RUNS", plans or n))
        self.indices = list(range(self.n_plans))
        if "VERIF_RUNS" not in os.environ:
            for lo, hi in extra_ranges(prop, tier):
                self.indices.extend(range(lo, hi))
        self.n_plans = len(self.indices)
        self.batch = batch
        self.k = k
        self.recycle = recycle
        self.budget = float(os.environ.get("VERIF_BUDGET_S", budget))
        self.W = int(os.environ.get("VERIF_WORKERS", workers or min(16, os.cpu_count() or 2)))
        self.W = max(self.k, self.W)
        self.stop = threading.Event()
        self.q = queue.Queue()
        self.hashseeds_used = []
        self.canaries = set()
        self.histories = {}  # (slot, generation) -> list of plan indices that worker executed
        self.batch_histories = {}  # (slot, generation) -> the same, request by request

    def tasks_for_slot(self, slot):
        nb = (self.n_plans + self.batch - 1) // self.batch
        for b in range(nb):
            for r in range(self.k):
                if (b * self.k + r) % self.W == slot:
                    lo = b * self.batch
                    yield b, r, self.indices[lo:lo + self.batch]

    def slot_thread(self, slot):
        worker = None
        done = 0
        gen = 0
        try:
            for b, r, indices in self.tasks_for_slot(slot):
                if self.stop.is_set():
                    break
                if worker is None or done >= self.recycle:
                    if worker:
                        worker.close()
                    hs = hash_seed_for(self.seed, slot, gen)
                    if slot == 0 and gen == 0:
                        hs = 0  # the "no randomisation" control
                    gen += 1
                    done = 0
                    worker = WorkerProc(hs)
                    self.hashseeds_used.append(hs)
                    self.canaries.add(tuple(worker.hello["canary"]))
                    self.histories[(slot, gen)] = worker.history
                    self.batch_histories[(slot, gen)] = worker.batches
                if r % 2 == 1:
                    # replicas walk a batch in opposite directions, so that the same plan is
                    # met after different predecessors in the two interpreters
                    indices = list(reversed(indices))
                pos = len(worker.history)
                resp = worker.request({"t": "gen", "prop": self.prop, "seed": self.seed,
                                       "indices": indices})
                worker.history.extend(indices)
                worker.batches.append(list(indices))
                done += 1
                self.q.put(("res", b, r, worker.hashseed, resp["results"], (slot, gen), pos))
        except HarnessError as e:
            self.q.put(("err", str(e)))
        except Exception as e:  # noqa: BLE001
            self.q.put(("err", f"slot {slot}: {type(e).__name__}: {e}"))
        finally:
            if worker:
                worker.close()
            self.q.put(("done", slot))

    def run(self):
        t0 = time.time()
        threads = [threading.Thread(target=self.slot_thread, args=(s,), daemon=True)
                   for s in range(self.W)]
        for t in threads:
            t.start()
        pending = {}
        stats = {}
        fs = {}
        executions = 0
        plans_done = 0
        steps = 0
        nontrivial = set()
        all_sched = set()
        candidates = {}  # sig -> Candidate (first occurrence)
        cmp_pairs = []
        sig_counts = {}
        cover = set()
        iso_seen = {}
        det_sample = None
        i5_candidates = []
        cross_seed_divergences = 0
        errors = []
        alive = self.W
        while alive:
            msg = self.q.get()
            if msg[0] == "done":
                alive -= 1
                continue
            if msg[0] == "err":
                errors.append(msg[1])
                self.stop.set()
                continue
            _, b, r, hs, results, wid, pos = msg
            for off, res in enumerate(results):
                here = {"wid": wid, "pos": pos + off, "index": res["index"], "hs": hs}
                res["_where"] = here
                if res.get("group") is not None:
                    # I5: the isolated outcome of one evaluation is the same in every session
                    # over the same world, whichever interpreter (with whatever history) ran it
                    for key, dig in (res.get("iso_outcomes") or {}).items():
                        gk = (res["group"], key)
                        ref = iso_seen.get(gk)
                        if ref is None:
                            iso_seen[gk] = (dig, here)
                        elif ref[0] != dig:
                            sig_counts["I5?"] = sig_counts.get("I5?", 0) + 1
                            if len(i5_candidates) < 5:
                                i5_candidates.append({"key": key, "a": ref[1], "b": here})
                executions += 1
                steps += res["steps"]
                merge_stats(stats, res["stats"])
                merge_stats(fs, res["fs"])
                for v in res["violations"]:
                    sig_counts[v["sig"]] = sig_counts.get(v["sig"], 0) + 1
                    if v["sig"] not in candidates:
                        v["_where"] = here
                        candidates[v["sig"]] = Candidate(v["sig"], v["inv"], res["index"], [hs], v)
            slot = pending.setdefault(b, {})
            if b == 0 and r == 0:
                # first batch of a fresh interpreter: (order of execution, digests)
                det_sample = (hs, [x["index"] for x in results], {x["index"]: x["full_digest"] for x in results})
            slot[r] = (hs, sorted(results, key=lambda x: x["index"]))
            if len(slot) == self.k:
                reps = [slot[i] for i in range(self.k)]
                del pending[b]
                base_hs, base = reps[0]
                for j, res0 in enumerate(base):
                    plans_done += 1
                    cmp_pairs.append((res0["index"], res0["cmp_digest"]))
                    sig = res0.get("sched_sig") or res0["plan_digest"]
                    all_sched.add(sig)
                    if res0["stats"].get("nontrivial"):
                        nontrivial.add(sig)
                    cover.update(res0.get("cover") or ())
                    for hs_i, rep in reps[1:]:
                        ri = rep[j]
                        if ri["plan_digest"] != res0["plan_digest"]:
                            errors.append(f"plan generation depends on the interpreter: index "
                                          f"{res0['index']} digests {res0['plan_digest']} / {ri['plan_digest']}")
                            self.stop.set()
                        elif ri["cmp_digest"] != res0["cmp_digest"]:
                            cross_seed_divergences += 1
                            if not CROSS_SEED_IS_VIOLATION[self.prop]:
                                continue
                            key = f"{self.prop}/I4/?"
                            sig_counts[key] = sig_counts.get(key, 0) + 1
                            if key not in candidates:
                                candidates[key] = Candidate(key, "I4", res0["index"],
                                                            [base_hs, hs_i],
                                                            {"where": [res0["_where"], ri["_where"]]})
            if time.time() - t0 > self.budget:
                self.stop.set()
        wall = time.time() - t0
        return {
            "wall": wall, "stats": stats, "fs": fs, "executions": executions,
            "plans_done": plans_done, "steps": steps, "nontrivial": len(nontrivial),
            "distinct_schedules": len(all_sched), "candidates": candidates,
            "sig_counts": sig_counts, "errors": errors,
            "hashseeds": sorted(set(self.hashseeds_used)),
            "distinct_hash_orders": len(self.canaries),
            "budget_exhausted": wall > self.budget,
            "cover": cover, "cross_seed_divergences": cross_seed_divergences,
            "i5_candidates": i5_candidates, "histories": self.histories,
            "batch_histories": self.batch_histories,
            "iso_pairs_compared": len(iso_seen), "det_sample": det_sample,
            # one digest over the comparable logs of all plans: the same for any worker count,
            # any assignment of plans to interpreters and any hash seeds (on a tree where I4 holds)
            "cmp_aggregate": digest(sorted(cmp_pairs)),
        }


def write_replay(prop, seed, index, plan, hashseeds, sig, detail, history=None, expect=None):
    os.makedirs(os.path.join(HERE, "replays"), exist_ok=True)
    name = f"{prop}-{seed}-{index}-{hashlib.sha256(sig.encode()).hexdigest()[:8]}.json"
    path = os.path.join(HERE, "replays", name)
    doc = {"property": prop, "seed": seed, "index": index, "signature": sig,
           "hash_seeds": hashseeds, "detail": detail}
    if history is not None and expect == "violation-requests":
        doc["kind"] = "requests"
        doc["batches"] = history
        doc["how"] = ("send plan indices `batches` (regenerated from seed and index), request by "
                      "request, to one fresh interpreter with PYTHONHASHSEED = hash_seeds[0]; the last "
                      "request shows the violation `signature`.  It depends on object addresses "
                      "(id() of a dead object re-used), which follow the allocation pattern, so the "
                      "requests are replayed verbatim rather than as explicit plans")
        with open(path, "w") as fh:
            json.dump(doc, fh, indent=1, sort_keys=True)
        return path
    if history is not None:
        doc["kind"] = "history"
        doc["plans"] = history
        if expect:
            doc["expect"] = expect
        doc["how"] = ("execute `plans` in order in one fresh interpreter (PYTHONHASHSEED = "
                      "hash_seeds[0]); the last plan shows the violation `signature`, which it does "
                      "not show when executed alone") if expect == "violation" else ("execute `plans` in order in one fresh interpreter (PYTHONHASHSEED = "
                      "hash_seeds[0]); execute the last plan alone in another; the comparable "
                      "logs of the last plan differ")
    else:
        doc["plan"] = plan
    with open(path, "w") as fh:
        json.dump(doc, fh, indent=1, sort_keys=True)
    return path


def replay(path):
    with open(path) as fh:
        rp = json.load(fh)
    if rp.get("kind") == "requests":
        got = request_history_violations(rp["property"], rp["seed"], rp["batches"], rp["hash_seeds"][0])
        if rp["signature"] in got:
            print(f"reproduced: {rp['signature']} (request {len(rp['batches'])} of one interpreter)")
            print(json.dumps(got[rp["signature"]], indent=1, sort_keys=True)[:4000])
            print(f"VIOLATION property={rp['property']} replay={path}")
            return EXIT_VIOLATION
        print(f"not reproduced: expected {rp['signature']}, got {sorted(got)}")
        return EXIT_OK
    if rp.get("kind") == "history" and rp.get("expect") == "violation":
        got = history_violations(rp["plans"], rp["hash_seeds"][0])
        if rp["signature"] in got:
            print(f"reproduced: {rp['signature']} (after {len(rp['plans']) - 1} earlier session(s) "
                  f"in the same interpreter)")
            print(json.dumps(got[rp["signature"]], indent=1, sort_keys=True)[:4000])
            print(f"VIOLATION property={rp['property']} replay={path}")
            return EXIT_VIOLATION
        print(f"not reproduced: expected {rp['signature']}, got {sorted(got)}")
        return EXIT_OK
    if rp.get("kind") == "history":
        div = history_divergence(rp["plans"], rp["hash_seeds"][0])
        got = i5_sig(rp["property"], div) if div else None
        if got == rp["signature"]:
            print(f"reproduced: {got}")
            print(json.dumps(div, indent=1, sort_keys=True)[:4000])
            print(f"VIOLATION property={rp['property']} replay={path}")
            return EXIT_VIOLATION
        print(f"not reproduced: expected {rp['signature']}, got {got}")
        return EXIT_OK
    pool = ReplayPool()
    try:
        sigs, outs = signatures_of(rp["plan"], rp["hash_seeds"], pool, fresh=True)
    finally:
        pool.close()
    if rp["signature"] in sigs:
        print(f"reproduced: {rp['signature']}")
        print(json.dumps(sigs[rp["signature"]], indent=1, sort_keys=True)[:4000])
        print(f"VIOLATION property={rp['property']} replay={path}")
        return EXIT_VIOLATION
    print(f"not reproduced: expected {rp['signature']}, got {sorted(sigs)}")
    return EXIT_OK


def check(prop, tier, seed):
    from . import evidence as evidence_mod

    known = load_known()
    open_sigs = {k["signature"]: k for k in known.get("open", []) if k["property"] == prop}
    run = Run(prop, tier, seed)
    print(f"[{prop}] tier={tier} VERIF_SEED={seed} plans={run.n_plans} workers={run.W} "
          f"replicas={run.k} src={SRC}", flush=True)
    out = run.run()
    if out["errors"]:
        for e in out["errors"][:5]:
            print(f"HARNESS-ERROR: {e}", flush=True)
        return EXIT_HARNESS
    if os.environ.get("VERIF_PRINT_COUNTS"):
        for k, v in sorted(out["sig_counts"].items(), key=lambda kv: -kv[1])[:30]:
            print(f"  seen {v:6d}x {k}")
    # determinism sample (DESIGN 2.4): the first batch of the first interpreter again - same hash
    # seed, fresh interpreter, same order (so the same in-process history); the complete event
    # logs must be byte-identical
    out["determinism_selfcheck"] = {"plans": 0, "mismatches": 0}
    if out.get("det_sample"):
        hs, order, digs = out["det_sample"]
        w = WorkerProc(hs)
        try:
            again = w.request({"t": "gen", "prop": prop, "seed": seed, "indices": order})["results"]
        finally:
            w.close()
        bad = [r["index"] for r in again if r["full_digest"] != digs[r["index"]]]
        out["determinism_selfcheck"] = {"plans": len(again), "mismatches": len(bad), "hash_seed": hs}
        if bad:
            print(f"HARNESS-ERROR: nondeterministic event log (same plan, same hash seed {hs}, "
                  f"fresh interpreter) for plan indices {bad[:10]}")
            return EXIT_HARNESS
    if out["distinct_hash_orders"] < 2 and out["executions"]:
        print("HARNESS-ERROR: hash seeds in use do not produce different set orders")
        return EXIT_HARNESS
    pool = ReplayPool()
    reported = []
    known_hit = []
    history_found = []
    skipped = []
    try:
        for c5 in out["i5_candidates"]:
            found = None
            for where in (c5["b"], c5["a"]):
                found = confirm_history(prop, seed, where, out["histories"])
                if found:
                    break
            if not found:
                # not the interpreters' histories: then the two interpreters' hash seeds. Hand the
                # later plan with both hash seeds to the ordinary I4 confirmation below (which
                # ends in a harness error if that does not reproduce it either).
                key = f"{prop}/I4/?"
                if c5["a"]["hs"] != c5["b"]["hs"] and key not in out["candidates"]:
                    out["candidates"][key] = Candidate(
                        key, "I4", c5["b"]["index"], [c5["a"]["hs"], c5["b"]["hs"]],
                        {"where": [c5["a"], c5["b"]], "from": "I5 cross-session comparison"})
                continue
            history_found.append(found)
            break  # one minimised history per run is enough
        MAX_REPORTS = int(os.environ.get("VERIF_MAX_REPORTS", "6"))
        for key, cand in sorted(out["candidates"].items()):
            from . import generators

            if len(reported) >= MAX_REPORTS:
                # every further signature is a violation too; they are listed, not minimised
                skipped.append(key)
                continue

            plan = generators.generate(prop, seed, cand.index)
            hashseeds = list(cand.hashseeds)
            sigs, _ = signatures_of(plan, hashseeds, pool, fresh=True)
            if "/I4/?" in key:
                real = [s for s in sigs if "/I4/" in s]
                if not real:
                    # not a hash-seed effect: was it the history of one of the interpreters?
                    found = None
                    for where in cand.detail.get("where", []):
                        found = confirm_history(prop, seed, where, out["histories"])
                        if found:
                            break
                    if not found:
                        print(f"HARNESS-ERROR: divergence at plan {cand.index} under hash seeds "
                              f"{hashseeds} reproduced neither in fresh interpreters nor from "
                              f"the interpreters' histories")
                        return EXIT_HARNESS
                    history_found.append(found)
                    continue
                sig = real[0]
            else:
                sig = key
                if sig not in sigs:
                    # not reproducible from the session alone: does it need the sessions the
                    # interpreter ran before (state leaking between sessions / instances)?
                    from . import generators as _g

                    where = cand.detail.get("_where") or {}
                    hist = out["histories"].get(tuple(where.get("wid", ())))
                    hplans = None
                    if hist and hist[where["pos"]] == cand.index:
                        hplans = [_g.generate(prop, seed, i) for i in hist[: where["pos"] + 1]]
                    if not hplans or sig not in history_violations(hplans, where["hs"]):
                        # last resort: the very requests that interpreter received, verbatim
                        # (object addresses - id() - follow the allocation pattern)
                        bh = out["batch_histories"].get(tuple(where.get("wid", ()))) or []
                        upto, n = [], 0
                        for b in bh:
                            upto.append(b)
                            n += len(b)
                            if n > where["pos"]:
                                break
                        got = request_history_violations(prop, seed, upto, where["hs"]) if upto else {}
                        if sig not in got:
                            print(f"HARNESS-ERROR: violation {sig} at plan {cand.index} reproduced "
                                  f"neither in a fresh interpreter (hash seed {hashseeds}) nor from "
                                  f"the interpreter's history")
                            return EXIT_HARNESS
                        if sig in open_sigs:
                            known_hit.append((sig, out["sig_counts"].get(key, 0)))
                            continue
                        # shorten from the front while it still shows (allocation-dependent: a few tries)
                        tests = 1
                        while len(upto) > 1:
                            cand_b = upto[max(1, len(upto) // 2):]
                            tests += 1
                            g2 = request_history_violations(prop, seed, cand_b, where["hs"])
                            if sig in g2:
                                upto, got = cand_b, g2
                            else:
                                break
                        det = dict(got[sig])
                        det["requests_before"] = len(upto) - 1
                        path = write_replay(prop, seed, cand.index, None, [where["hs"]], sig, det,
                                            history=upto, expect="violation-requests")
                        reported.append((sig, path, tests))
                        continue
                    if sig in open_sigs:
                        known_hit.append((sig, out["sig_counts"].get(key, 0)))
                        continue
                    got0 = history_violations(hplans, where["hs"])
                    det = dict(got0[sig])
                    det["sessions_before"] = len(hplans) - 1
                    path = write_replay(prop, seed, cand.index, None, [where["hs"]], sig, det,
                                        history=hplans, expect="violation")
                    print(f"VIOLATION property={prop} replay={path}", flush=True)
                    small, tests = minimise_history_violation(
                        hplans, where["hs"], sig, budget_s=max(0.0, min(180.0, time_left(prop, tier) - 60)))
                    if len(small) < len(hplans):
                        got = history_violations(small, where["hs"])
                        if sig in got:
                            det = dict(got[sig])
                            det["sessions_before"] = len(small) - 1
                            path = write_replay(prop, seed, cand.index, None, [where["hs"]], sig, det,
                                                history=small, expect="violation")
                    reported.append((sig, path, tests))
                    continue
            if sig in open_sigs:
                known_hit.append((sig, out["sig_counts"].get(key, 0)))
                continue
            # confirmed in fresh interpreters: say so at once (the replay file is rewritten in
            # place with the minimised plan below; a kill during minimisation loses nothing)
            path = write_replay(prop, seed, cand.index, plan, hashseeds, sig, sigs[sig])
            print(f"VIOLATION property={prop} replay={path}", flush=True)
            left = time_left(prop, tier)
            budget = max(0.0, min(120.0, (left - 30) / max(1, MAX_REPORTS - len(reported))))
            small, hs_small, tests = minimise(plan, hashseeds, sig, pool, budget_s=budget)
            pool.close()
            if tests > 1:
                sigs2, _ = signatures_of(small, hs_small, pool, fresh=True)
                if sig in sigs2:
                    path = write_replay(prop, seed, cand.index, small, hs_small, sig, sigs2[sig])
            reported.append((sig, path, tests))
        done_sigs = set()
        for plans, hs, div in history_found:
            sig = i5_sig(prop, div)
            if sig in done_sigs:
                continue
            done_sigs.add(sig)
            if sig in open_sigs:
                known_hit.append((sig, 1))
                continue
            div0 = dict(div)
            div0["hash_seed"] = hs
            div0["sessions_before"] = len(plans) - 1
            path = write_replay(prop, seed, plans[-1].get("index"), None, [hs], sig, div0,
                                history=plans)
            print(f"VIOLATION property={prop} replay={path}", flush=True)
            small, tests = minimise_history(plans, hs, sig, prop,
                                            budget_s=max(0.0, min(180.0, time_left(prop, tier) - 60)))
            if len(small) < len(plans):
                div2 = history_divergence(small, hs)
                if div2 is not None and i5_sig(prop, div2) == sig:
                    div2["hash_seed"] = hs
                    div2["sessions_before"] = len(small) - 1
                    path = write_replay(prop, seed, small[-1].get("index"), None, [hs], sig, div2,
                                        history=small)
            reported.append((sig, path, tests))
        samples = evidence_mod.collect_samples(prop, seed, pool)
    finally:
        pool.close()
    for sig, n in known_hit:
        print(f"KNOWN-FINDING: property={prop} {sig} ({open_sigs[sig]['what']}; seen {n}x this run)")
    for sig, path, tests in reported:
        print(f"violation {sig}: minimised with {tests} re-executions", flush=True)
        print(f"VIOLATION property={prop} replay={path}", flush=True)
    if skipped:
        print(f"{len(skipped)} further violation signature(s) seen in this run, not minimised: "
              + ", ".join(skipped[:40]), flush=True)
    evidence_mod.write(prop, tier, seed, run, out, samples, known_hit, reported, source_fingerprint())
    rate = out["plans_done"] / out["wall"] * 3600 if out["wall"] else 0
    print(f"[{prop}] plans={out['plans_done']} executions={out['executions']} steps={out['steps']} "
          f"nontrivial_distinct={out['nontrivial']} hash_seeds={len(out['hashseeds'])} "
          f"wall={out['wall']:.1f}s ({rate:.0f} plans/h) violations={len(reported)}", flush=True)
    return EXIT_VIOLATION if reported else EXIT_OK
