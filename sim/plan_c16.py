"""C16 plan generator: builder call histories of LayeredArchitecture / LayerRule.

Pure function of (seed, index). Imports nothing from the code under test.
"""
import random

from .models import (FREE, LAYER_ACCESS, LAYER_ANY, LAYER_VERBS, MUST_REJECT,
                     LayerDefModel, LayerRuleModel)

# systematic alphabet: two layer names, two module names (duplicates are forced)
L2 = ["LA", "LB"]
M2 = ["pk.m1", "pk.m2"]
R2 = ["^pk\\.r1.*", "^pk\\.r2.*"]

ARCH_ALPHABET = (
    [("layer", [n]) for n in L2]
    + [("containing_modules", [m]) for m in M2]
    + [("containing_modules", [[m]]) for m in M2]
    + [("containing_modules", [[M2[0], M2[1]]]), ("containing_modules", [[M2[1], M2[0]]])]
    + [("have_modules_with_names_matching", [r]) for r in R2]
    + [("with_layer", [])]
)

RULE_ALPHABET = (
    [("based_on", [{"$obj": "SA"}]), ("layers_that", [])]
    + [("are_named", ["LA"]), ("are_named", ["LB"]), ("are_named", [["LA", "LB"]])]
    + [(v, []) for v in LAYER_VERBS]
    + [(a, []) for a in LAYER_ACCESS]
    + [(a, []) for a in LAYER_ANY]
)

# larger vocabulary for random longer sequences
LN = ["LA", "LB", "LC", "LD", "", "la", "LA "]  # the library accepts the empty string as a layer name
# case twin; empty name; names that differ from another only by surrounding white space (trailing
# blank / newline, leading tab: none of them can be confused with the ", " of the printed form)
MN = ["pk.m1", "pk.m2", "pk.m3", "pk.sub.m4", "q", "pk", "pk.M1", "", "pk.m1 ", "pk.m2\n", "\tpk.m3"]
RN = ["^pk\\.r1.*", "^pk\\.r2.*", ".*r3$", "pk.m3", "q"]  # the last two: patterns that are plain names
VOCAB = sorted(set(x for x in LN + MN + RN if x), key=lambda t: (-len(t), t))

MAXLEN = 6

_enum_cache = {}


def enum_arch():
    """All sequences of length <= 6 over ARCH_ALPHABET in which every proper prefix is
    accepted by the model (only the last call may be one the model rejects)."""
    if "arch" in _enum_cache:
        return _enum_cache["arch"]
    out = []

    def rec(model, seq):
        for m, a in ARCH_ALPHABET:
            verdict, _ = model.classify(m, a)
            s2 = seq + [(m, a)]
            out.append(s2)
            if verdict == FREE and len(s2) < MAXLEN:
                m2 = model.copy()
                m2.apply(m, a)
                rec(m2, s2)

    rec(LayerDefModel(), [])
    _enum_cache["arch"] = out
    return out


def enum_rule():
    """All LayerRule call-chain prefixes of length <= 6 over RULE_ALPHABET in which every
    proper prefix is one the model expects to be accepted."""
    if "rule" in _enum_cache:
        return _enum_cache["rule"]
    out = []

    def rec(state, seq):
        for m, a in RULE_ALPHABET:
            model = LayerRuleModel()
            model.__dict__.update(state)
            verdict, reason = model.classify(m, a)
            s2 = seq + [(m, a)]
            out.append(s2)
            if verdict == FREE and reason != "before-layers_that" and len(s2) < MAXLEN:
                model.apply(m, a)
                rec(dict(model.__dict__), s2)

    rec(dict(LayerRuleModel().__dict__), [])
    _enum_cache["rule"] = out
    return out


def _mutate_list(lst, how):
    """Plan-time mirror of Session.do_mutate (the judge itself goes by what the executor logged)."""
    if how[0] == "clear":
        lst.clear()
    elif how[0] == "append":
        lst.append(how[1])
    elif how[0] == "pop" and lst:
        lst.pop(how[1] % len(lst))
    elif how[0] == "set" and lst:
        lst[how[1] % len(lst)] = how[2]
    elif how[0] == "reverse":
        lst.reverse()
    elif how[0] == "refill":
        lst[:] = how[1]


def _arch_ops(obj, seq, new=True, cont=False, held=None, quiet=False):
    """Compile a call sequence on a LayeredArchitecture into ops with model annotations.
    cont: the caller goes on using the object after a rejected call (the rejected call
    supplied nothing, so the definition must be what it was).
    held: caller-owned lists by name (F14): {"$keep": n, "v": [...]} passes a new list the caller
    keeps, ("@mutate", [n, how]) changes it later, {"$held": n} passes the same list object again."""
    ops = []
    model = LayerDefModel()
    held = {} if held is None else held
    if new:
        ops.append({"op": "new", "obj": obj, "cls": "LayeredArchitecture"})
    for m, a in seq:
        if m == "@mutate":
            ops.append({"op": "mutate", "name": a[0], "how": a[1]})
            if a[0] in held:
                _mutate_list(held[a[0]], a[1])
        else:
            av = a
            if a and isinstance(a[0], dict):
                if "$keep" in a[0]:
                    held[a[0]["$keep"]] = list(a[0]["v"])
                    av = [list(a[0]["v"])]
                elif "$held" in a[0]:
                    av = [list(held.get(a[0]["$held"], []))]
            verdict, reason = model.classify(m, av)
            ops.append({"op": "call", "obj": obj, "m": m, "a": a, **({"cont": True} if cont else {})})
            if verdict == MUST_REJECT:
                if not cont:
                    break
            else:
                model.apply(m, av)
        if quiet:
            continue  # nobody looks at the definition while it is being built (only at the end)
        # observation steps; what they must show is decided by the judge's own model
        ops.append({"op": "str", "obj": obj})
        ops.append({"op": "mapping", "obj": obj})
        for layer, _ in model.listing():
            ops.append({"op": "getitem", "obj": obj, "k": layer})
    if quiet:
        ops.append({"op": "str", "obj": obj})
        ops.append({"op": "mapping", "obj": obj})
        for layer, _ in model.listing():
            ops.append({"op": "getitem", "obj": obj, "k": layer})
    return ops, model


def _rule_ops(obj, seq, cont=False, watch=None):
    """watch: (architecture object id, its layer names) - the definition a rule is based on is
    looked at again after every are_named: building a rule must not rewrite it."""
    ops = [{"op": "new", "obj": obj, "cls": "LayerRule"}]
    model = LayerRuleModel()
    for m, a in seq:
        verdict, reason = model.classify(m, a)
        ops.append({"op": "call", "obj": obj, "m": m, "a": a, **({"cont": True} if cont else {})})
        if verdict == MUST_REJECT:
            if not cont:
                break
        else:
            model.apply(m, a)
            if watch and m == "are_named":
                ops.append({"op": "str", "obj": watch[0]})
                ops.append({"op": "mapping", "obj": watch[0]})
                for layer in watch[1]:
                    ops.append({"op": "getitem", "obj": watch[0], "k": layer})
    return ops


def _random_arch_seq(rng, n, stop=True, alias=None):
    """alias: prefix for names of caller-owned lists (F14): list arguments are then mostly lists the
    caller keeps, changes between calls and sometimes passes again."""
    seq = []
    model = LayerDefModel()
    lay = rng.sample(LN, rng.randint(2, 4))
    mods = rng.sample(MN, rng.randint(2, 5))
    held = {}
    for _ in range(n):
        roll = rng.random()
        pend = model.pending()
        if alias and held and rng.random() < 0.35:
            name = rng.choice(sorted(held))
            how = rng.choice([["clear"], ["pop", rng.randint(0, 3)], ["append", rng.choice(mods)],
                              ["set", rng.randint(0, 3), rng.choice(mods)], ["reverse"],
                              ["refill", rng.sample(mods, rng.randint(1, min(2, len(mods))))]])
            seq.append(("@mutate", [name, how]))
            _mutate_list(held[name], how)
            continue
        # biased towards making progress, with a steady rate of illegal calls
        if roll < 0.08:
            call = ("with_layer", [])
        elif (pend and roll < 0.8) or (not pend and roll < 0.2):
            if rng.random() < 0.2:
                call = ("have_modules_with_names_matching", [rng.choice(RN)])
            else:
                k = rng.randint(1, min(3, len(mods)))
                names = rng.sample(mods, k)
                if rng.random() < 0.06:
                    names, k = [], 0  # a list that names nothing
                if k == 1 and rng.random() < (0.3 if alias else 0.6):
                    call = ("containing_modules", [names[0]])
                elif alias and held and rng.random() < 0.3:
                    call = ("containing_modules", [{"$held": rng.choice(sorted(held))}])
                elif alias and rng.random() < 0.8:
                    call = ("containing_modules", [{"$keep": f"{alias}{len(held)}", "v": names}])
                else:
                    call = ("containing_modules", [names])
        else:
            call = ("layer", [rng.choice(lay)])
        seq.append(call)
        av = call[1]
        if av and isinstance(av[0], dict):
            if "$keep" in av[0]:
                held[av[0]["$keep"]] = list(av[0]["v"])
                av = [list(av[0]["v"])]
            else:
                av = [list(held[av[0]["$held"]])]
        verdict, _ = model.classify(call[0], av)
        if verdict == MUST_REJECT:
            if stop:
                break
            continue
        model.apply(call[0], av)
    return seq


def _random_rule_seq(rng, n, arch_ref, layers, also_based_on=()):
    seq = []
    alphabet = (
        [("based_on", [{"$obj": arch_ref}])] * 2 + [("layers_that", [])] * 2
        + [("based_on", [{"$obj": a}]) for a in also_based_on]
        + [("are_named", [rng.choice(layers)]) for _ in range(3)]
        + [("are_named", [rng.sample(layers, 2)])]
        + [(v, []) for v in LAYER_VERBS] + [(a, []) for a in LAYER_ACCESS]
        + [(a, []) for a in LAYER_ANY]
    )
    # mostly start in the documented order, then random
    if rng.random() < 0.7:
        seq.append(("based_on", [{"$obj": arch_ref}]))
        if rng.random() < 0.85:
            seq.append(("layers_that", []))
    while len(seq) < n:
        seq.append(rng.choice(alphabet))
    return seq


SWEEP_PER_PLAN = 16  # 4 clients x 4 enumerated sequences


def sweep_size():
    return len(enum_arch()) + len(enum_rule())


def n_sweep_plans():
    return (sweep_size() + SWEEP_PER_PLAN - 1) // SWEEP_PER_PLAN


def _setup_ops():
    return _arch_ops("SA", [("layer", ["LA"]), ("containing_modules", [["pk.m1", "pk.m2"]]),
                            ("layer", ["LB"]), ("containing_modules", ["pk.m3"])])[0] + [
        # a second, still empty definition: a rule based on it has its architecture
        {"op": "new", "obj": "SE", "cls": "LayeredArchitecture"}]


def generate_sweep(seed, index):
    """Plans 0 .. n_sweep_plans()-1 walk the complete enumerated space (every sequence of
    length <= 6 the quantifier names) exactly once, 16 sequences per session, interleaved."""
    rng = random.Random(f"{seed}:C16:sweep:{index}")
    arch_enum, rule_enum = enum_arch(), enum_rule()
    setup = _setup_ops()
    clients = [[] for _ in range(4)]
    cover = []
    for c in range(4):
        for j in range(4):
            no = index * SWEEP_PER_PLAN + c * 4 + j
            if no < len(arch_enum):
                ops, _ = _arch_ops(f"A{c}_{j}", arch_enum[no])
                cover.append(f"arch:{no}")
            elif no - len(arch_enum) < len(rule_enum):
                ops = _rule_ops(f"R{c}_{j}", rule_enum[no - len(arch_enum)], watch=("SA", ["LA", "LB"]))
                cover.append(f"rule:{no - len(arch_enum)}")
            else:
                continue
            clients[c].extend(ops)
    clients[0] = setup + clients[0]
    schedule = [0] * len(setup)
    rest = []
    for c, ops in enumerate(clients):
        rest.extend([c] * (len(ops) - (len(setup) if c == 0 else 0)))
    rng.shuffle(rest)
    schedule += rest
    return {"prop": "C16", "index": index, "seed": seed, "vocab": VOCAB, "world": {}, "cfgs": {},
            "clients": clients, "schedule": schedule,
            "meta": {"client_kinds": ["sweep"], "interleaved": rest != sorted(rest), "cover": cover}}


# A small fixed project and a three-layer definition for sentences that are started over (J4):
# m1 -> m2 -> m3, so that rules with different subject layers have different outcomes.
RESTART_WORLD = {"trees": {"t0": {"root": "pk", "dirs": ["pk"], "files": {
    "pk/__init__.py": "", "pk/m1.py": "import pk.m2\n", "pk/m2.py": "from pk import m3\n",
    "pk/m3.py": "VALUE = 1\n"}}}}
RESTART_CFGS = {"c0": {"tree": "t0", "root": "pk", "module": "pk", "via": "path", "kw": {}}}
RESTART_LAYERS = ["XA", "XB", "XC"]


def _restart_setup():
    ops, _ = _arch_ops("SR", [("layer", ["XA"]), ("containing_modules", ["pk.m1"]),
                              ("layer", ["XB"]), ("containing_modules", [["pk.m2"]]),
                              ("layer", ["XC"]), ("containing_modules", ["pk.m3"])])
    return [{"op": "scan", "ev": "E0", "cfg": "c0"}] + ops


def _sentence(rng, subject):
    verb = rng.choice(LAYER_VERBS)
    if verb == "should_not" and rng.random() < 0.25:
        return [("are_named", [subject]), (verb, []), (rng.choice(LAYER_ANY), [])]
    objs = rng.sample(RESTART_LAYERS, rng.randint(1, 2))
    return [("are_named", [subject]), (verb, []), (rng.choice(LAYER_ACCESS), []),
            ("are_named", [objs if len(objs) > 1 or rng.random() < 0.3 else objs[0]])]


def _restart_ops(rng, c):
    """J4: a LayerRule whose sentence is started over with layers_that() has exactly the subject
    layer of the new sentence: it must behave like a fresh rule that was given only that sentence."""
    s1, s2 = rng.sample(RESTART_LAYERS, 2)
    first = _sentence(rng, s1)
    first = first[: rng.randint(1, len(first))]  # the first sentence may be left unfinished
    second = _sentence(rng, s2)
    r, t = f"R{c}", f"T{c}"
    ops = [{"op": "new", "obj": r, "cls": "LayerRule"},
           {"op": "call", "obj": r, "m": "based_on", "a": [{"$obj": "SR"}]},
           {"op": "call", "obj": r, "m": "layers_that", "a": []}]
    ops += [{"op": "call", "obj": r, "m": m, "a": a} for m, a in first]
    if len(first) >= 3 and rng.random() < 0.4:
        ops.append({"op": "apply", "obj": r, "ev": "E0"})  # the first sentence was even evaluated
    ops.append({"op": "call", "obj": r, "m": "layers_that", "a": []})
    ops += [{"op": "call", "obj": r, "m": m, "a": a} for m, a in second]
    ops.append({"op": "apply", "obj": r, "ev": "E0", "tag": f"restarted:{r}"})
    ops += [{"op": "new", "obj": t, "cls": "LayerRule"},
            {"op": "call", "obj": t, "m": "based_on", "a": [{"$obj": "SR"}]},
            {"op": "call", "obj": t, "m": "layers_that", "a": []}]
    ops += [{"op": "call", "obj": t, "m": m, "a": a} for m, a in second]
    ops.append({"op": "apply", "obj": t, "ev": "E0", "twin_of": f"restarted:{r}"})
    return ops


def generate(seed, index):
    if index < n_sweep_plans():
        return generate_sweep(seed, index)
    rng = random.Random(f"{seed}:C16:{index}")
    arch_enum = enum_arch()
    rule_enum = enum_rule()
    nclients = rng.randint(1, 4)
    clients = []
    # client 0 starts by building the shared, finished architecture "SA" (LA, LB)
    setup = _setup_ops()
    kinds = []
    for c in range(nclients):
        roll = rng.random()
        slot = index * 4 + c
        if roll < 0.04:
            kind = "rule_sentence_started_over"
            ops = _restart_ops(rng, c)
        elif roll < 0.35:
            kind = "enum_arch"
            seqno = slot % len(arch_enum)
            ops, _ = _arch_ops(f"A{c}", arch_enum[seqno])
        elif roll < 0.6:
            kind = "enum_rule"
            seqno = slot % len(rule_enum)
            ops = _rule_ops(f"R{c}", rule_enum[seqno], watch=("SA", ["LA", "LB"]))
        elif roll < 0.68:
            kind = "random_arch"
            ops, _ = _arch_ops(f"A{c}", _random_arch_seq(rng, rng.randint(3, 12)), quiet=rng.random() < 0.3)
        elif roll < 0.72:
            # F14: the caller keeps, changes and re-uses the lists it passes; sometimes the same
            # list goes to two definitions
            kind = "arch_caller_owned_lists"
            held = {}
            cont = rng.random() < 0.5
            ops, _ = _arch_ops(f"A{c}", _random_arch_seq(rng, rng.randint(4, 14), stop=not cont, alias=f"k{c}_"),
                               cont=cont, held=held)
            if held and rng.random() < 0.4:
                k = rng.choice(sorted(held))
                ops2, _ = _arch_ops(f"B{c}", [("layer", ["LA"]), ("containing_modules", [{"$held": k}]),
                                              ("@mutate", [k, ["append", "pk.m3"]]),
                                              ("layer", ["LB"]), ("containing_modules", [rng.choice(["pk.m3", ["pk.m3"]])])],
                                    cont=True, held=held)
                ops += ops2
        elif roll < 0.8:
            # the object stays in use after rejected calls
            kind = "arch_continued_after_rejection"
            if rng.random() < 0.5:
                seq = [rng.choice(ARCH_ALPHABET) for _ in range(rng.randint(3, 9))]
            else:
                seq = _random_arch_seq(rng, rng.randint(4, 14), stop=False)
            ops, _ = _arch_ops(f"A{c}", seq, cont=True, quiet=rng.random() < 0.3)
        elif roll < 0.85:
            kind = "random_rule"
            ops = _rule_ops(f"R{c}", _random_rule_seq(rng, rng.randint(2, 9), "SA", ["LA", "LB"]),
                            watch=("SA", ["LA", "LB"]))
        elif roll < 0.9:
            kind = "rule_continued_after_rejection"
            first = rng.choice(["SA", "SA", "SE"])
            seq = _random_rule_seq(rng, rng.randint(3, 9), first, ["LA", "LB"],
                                   also_based_on=["SA", "SE"])
            ops = _rule_ops(f"R{c}", seq, cont=True, watch=("SA", ["LA", "LB"]))
        else:
            kind = "arch_then_rule"
            seq = [("layer", ["LC"]), ("containing_modules", [rng.choice([["pk.m1"], "pk.m1"])]),
                   ("layer", ["LD"]), ("have_modules_with_names_matching", [rng.choice(RN)])]
            ops, _ = _arch_ops(f"A{c}", seq)
            ops += _rule_ops(f"R{c}", _random_rule_seq(rng, rng.randint(2, 8), f"A{c}", ["LC", "LD"]),
                             watch=(f"A{c}", ["LC", "LD"]))
        kinds.append(kind)
        clients.append(ops)
    restart = "rule_sentence_started_over" in kinds
    if restart:
        setup = setup + _restart_setup()
    clients[0] = setup + clients[0]
    schedule = [0] * len(setup)
    rest = []
    for c, ops in enumerate(clients):
        rest.extend([c] * (len(ops) - (len(setup) if c == 0 else 0)))
    if rng.random() < 0.15:
        pass  # sequential: clients one after the other (control)
    else:
        rng.shuffle(rest)
    schedule += rest
    return {
        "prop": "C16",
        "index": index,
        "seed": seed,
        "vocab": VOCAB + (RESTART_LAYERS if restart else []),
        "world": RESTART_WORLD if restart else {},
        "cfgs": RESTART_CFGS if restart else {},
        "clients": clients,
        "schedule": schedule,
        "meta": {"client_kinds": kinds, "interleaved": rest != sorted(rest)},
    }
